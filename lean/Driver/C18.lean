import AsmjitVerif.Model.Arena
import AsmjitVerif.Model.Vector
import AsmjitVerif.Model.Hash
import AsmjitVerif.Model.Tree
import AsmjitVerif.Model.ListPool
import AsmjitVerif.Model.Bits
import AsmjitVerif.Model.Str
import AsmjitVerif.Model.ArenaStr
import AsmjitVerif.Spec.C18
import Driver.Common
import Driver.MonC18
/-!
C18 driver.  Model mode: every line is one operation of harness/c18.cpp, answered by the Lean models (all
arena-backed containers share one arena model).  Monitor mode: lines `M <op> | <answer of the implementation>` are
judged by the textbook ADTs / structural predicates of `Spec/C18.lean` (`good` / `BAD <why>`).
-/
namespace Driver.C18
open AsmjitVerif AsmjitVerif.Arena

def alGet {α : Type} (l : List (Nat × α)) (k : Nat) : Option α := (l.find? (·.1 == k)).map (·.2)
def alSet {α : Type} (l : List (Nat × α)) (k : Nat) (v : α) : List (Nat × α) := (k, v) :: l.filter (·.1 != k)

def hexN (n : Nat) : String := toHex n
def listOrHash (xs : List String) : String :=
  if xs.length ≤ 48 then (if xs.isEmpty then "items=-" else "items=" ++ ",".intercalate xs)
  else "hash=" ++ hexN (xs.foldl (fun h s => fnvStr (fnvStr h s) ",") fnvInit).toNat
def hashOf (s : String) : String := hexN (fnvStr fnvInit s).toNat
def nat (s : String) : Nat := s.toNat?.getD 0
def b01 (b : Bool) : String := if b then "1" else "0"

structure TreeE where
  t : Tree.Tree := {}
  locs : List (Nat × Loc) := []     -- node index -> location
  deriving Inhabited

structure MS where
  arena : Option State := none
  handles : List (Nat × (Loc × Nat)) := []
  vecs : List (Nat × (Nat × AsmjitVerif.Vector.Vec)) := []
  hashes : List (Nat × Hash.Table) := []
  huid : Nat := 0
  trees : List (Nat × TreeE) := []
  pool : ListPool.Pool := {}
  lists : List (Nat × ListPool.DList) := []
  heap : ListPool.Heap := #[{}]
  bits : List (Nat × Bits.BitSet) := []
  strs : List (Nat × Str.Str) := []
  astrs : List (Nat × ArenaStr.AStr) := []
  deriving Inhabited

def locStr (a : State) : Option Loc → String
  | none => "none"
  | some (.dyn _) => "dyn"
  | some (.managed p o) => s!"b{p}:{a.blocks.getD p 0}+{o}"

def dropContainers (m : MS) : MS :=
  { m with handles := [], vecs := [], hashes := [], trees := [], pool := {}, lists := [], heap := #[{}], bits := [], astrs := [] }

/-! ### arena -/
def arenaOp (m : MS) (w : List String) : MS × String :=
  match w with
  | ["A", "new", a, b] =>
    let a := nat a; let b := nat b
    if a < 1024 ∨ a > 2 ^ 26 ∨ b > 65536 ∨ (b ≠ 0 ∧ b < 64) then (m, "bad-op") else
    ({ dropContainers m with arena := some (init a b) }, "ok")
  | _ =>
  match m.arena with
  | none => (m, "bad-op")
  | some ar =>
    match w with
    | ["A", "one", a] =>
      let a := nat a
      if a % 8 ≠ 0 ∨ a = 0 then (m, "bad-op") else
      match allocOneshot ar a with
      | (ar', some p) => ({ m with arena := some ar' }, s!"ok loc={locStr ar' (some p)} bytes={a}")
      | (ar', none) => ({ m with arena := some ar' }, "null")
    | ["A", "get", h, b] =>
      let h := nat h; let b := nat b
      if b = 0 ∨ (alGet m.handles h).isSome then (m, "bad-op") else
      match allocReusable ar b with
      | (ar', some p, asz) => ({ m with arena := some ar', handles := alSet m.handles h (p, asz) }, s!"ok loc={locStr ar' (some p)} bytes={asz}")
      | (ar', none, _) => ({ m with arena := some ar' }, "null")
    | ["A", "put", h] =>
      let h := nat h
      match alGet m.handles h with
      | none => (m, "bad-op")
      | some (p, asz) => ({ m with arena := some (freeReusable ar p asz), handles := m.handles.filter (·.1 != h) }, "ok loc=none")
    | ["A", "dup", hx, nt] =>
      match (hexToBytes? hx).map (·.map (·.toNat)) with
      | none => (m, "bad-op")
      | some bs =>
        match ArenaStr.dup ar bs (nt == "1") with
        | (ar', none) => ({ m with arena := some ar' }, "null")
        | (ar', some (p, asz, blk)) =>
          ({ m with arena := some ar' }, s!"ok loc={locStr ar' (some p)} bytes={asz} s=" ++
            String.ofList ((blk.take bs.length).flatMap fun b => [hexChar (b / 16 % 16), hexChar (b % 16)]) ++
            " pad0=" ++ b01 ((blk.drop bs.length).all (· == 0)))
    | ["A", "pool", "count"] => (m, s!"ok r={m.pool.free.length}")
    | ["A", "pool", "reset"] => ({ m with pool := {} }, "ok r=0")
    | ["A", "reset", pol] => ({ dropContainers m with arena := some (reset ar (pol == "hard")) }, "ok")
    | ["A", "stats"] =>
      let (bc, used, res, ov) := statistics ar
      (m, s!"blocks={bc} used={used} reserved={res} overhead={ov}")
    | _ => (m, "bad-op")

/-! ### vector -/
def vecState (ar : State) (item : Nat) (v : AsmjitVerif.Vector.Vec) : String :=
  s!" n={v.size} cap={v.cap} loc={locStr ar v.data} bytes={v.cap * item} " ++ listOrHash ((AsmjitVerif.Vector.items v).map toString)

def errV : AsmjitVerif.Vector.Err → String | .ok => "ok" | .oom => "oom"

def vecOp (m : MS) (ar : State) (id item : Nat) (v : AsmjitVerif.Vector.Vec) (w : List String) : MS × String :=
  let fin (ar' : State) (v' : AsmjitVerif.Vector.Vec) (st : String) (r : String := "") : MS × String :=
    ({ m with arena := some ar', vecs := alSet m.vecs id (item, v') }, st ++ r ++ vecState ar' item v')
  let finR (r : AsmjitVerif.Vector.Res) : MS × String :=
    match r with
    | none => (m, "MODEL-OVERRUN")
    | some (ar', v', e) => fin ar' v' (errV e)
  let a := nat (w.getD 3 "0") % u64
  let b := nat (w.getD 4 "0")
  let u32 := if item = 1 then 256 else u32     -- value width of the item type
  match w.getD 2 "" with
  | "append" => finR (AsmjitVerif.Vector.insert ar v v.size (a % u32) item)
  | "prepend" => finR (AsmjitVerif.Vector.insert ar v 0 (a % u32) item)
  | "insert" => if a > v.size then fin ar v "precond" else finR (AsmjitVerif.Vector.insert ar v a (b % u32) item)
  | "remove_at" => if a ≥ v.size then fin ar v "precond" else
      match AsmjitVerif.Vector.removeAt v a with
      | some v' => fin ar v' "ok"
      | none => (m, "MODEL-OVERRUN")
  | "pop" => if v.size = 0 then fin ar v "precond" else let (v', x) := AsmjitVerif.Vector.pop v; fin ar v' "ok" s!" r={x}"
  | "clear" => fin ar (AsmjitVerif.Vector.clear v) "ok"
  | "truncate" => fin ar (AsmjitVerif.Vector.truncate v a) "ok"
  | "reserve_fit" => let (ar', v', e) := AsmjitVerif.Vector.reserveFitP ar v a item; fin ar' v' (errV e)
  | "reserve_grow" => let (ar', v', e) := AsmjitVerif.Vector.reserveGrowP ar v a item; fin ar' v' (errV e)
  | "reserve_add" => let (ar', v', e) := AsmjitVerif.Vector.reserveAddN ar v a item; fin ar' v' (errV e)
  | "resize_fit" => finR (AsmjitVerif.Vector.resize false ar v a item)
  | "resize_grow" => finR (AsmjitVerif.Vector.resize true ar v a item)
  | "concat" =>
    match alGet m.vecs a with
    | some (item2, o) => if item2 ≠ item ∨ a = id then (m, "bad-op") else finR (AsmjitVerif.Vector.concat ar v o item)
    | none => (m, "bad-op")
  | "swap" =>
    match alGet m.vecs a with
    | some (item2, o) => if item2 ≠ item ∨ a = id then (m, "bad-op") else
      ({ m with vecs := alSet (alSet m.vecs id (item, o)) a (item, v) }, "ok" ++ vecState ar item o)
    | none => (m, "bad-op")
  | "move_from" | "move_ctor" =>
    match alGet m.vecs a with
    | some (item2, o) => if item2 ≠ item ∨ a = id then (m, "bad-op") else
      -- `_move_from`: this takes other's header, other is reset (the old allocation of `this` is simply dropped)
      ({ m with vecs := alSet (alSet m.vecs id (item, o)) a (item, {}) }, "ok" ++ vecState ar item o)
    | none => (m, "bad-op")
  | "release" => let (ar', v') := AsmjitVerif.Vector.release ar v item; fin ar' v' "ok"
  | "index_of" => fin ar v "ok" (" r=" ++ match AsmjitVerif.Vector.indexOf v (a % u32) with | some i => toString i | none => "none")
  | "last_index_of" => fin ar v "ok" (" r=" ++ match AsmjitVerif.Vector.lastIndexOf v (a % u32) with | some i => toString i | none => "none")
  | "contains" => fin ar v "ok" (" r=" ++ b01 (AsmjitVerif.Vector.contains v (a % u32)))
  | "iter" => fin ar v "ok" (" r:" ++ listOrHash ((AsmjitVerif.Vector.items v).map toString))
  | "riter" => fin ar v "ok" (" r:" ++ listOrHash ((AsmjitVerif.Vector.items v).reverse.map toString))
  | "first_last" => if v.size = 0 then fin ar v "precond" else
      fin ar v "ok" s!" r={(AsmjitVerif.Vector.items v).headD 0},{(AsmjitVerif.Vector.items v).getLastD 0}"
  | "span_eq" =>
    match alGet m.vecs a with
    | some (item2, o) => if item2 ≠ item ∨ a = id then (m, "bad-op") else
      fin ar v "ok" (" r=" ++ b01 (AsmjitVerif.Vector.items v == AsmjitVerif.Vector.items o))
    | none => (m, "bad-op")
  | "info" => fin ar v "ok"
  | _ => (m, "bad-op")

/-! ### hash -/
def hashState (ar : State) (t : Hash.Table) : String :=
  s!" n={t.size} buckets={t.count} grow={t.grow} pi={t.primeIndex} loc={locStr ar t.data} bytes={t.count * 8}"

def hashDump (t : Hash.Table) : String :=
  let cells := (t.buckets.zipIdx.filter (fun (c, _) => !c.isEmpty)).map fun (c, i) =>
    toString i ++ ":" ++ ",".intercalate (c.map fun n => s!"{n.key}/{n.hash}")
  if cells.length ≤ 512 then (if cells.isEmpty then "chains=-" else "chains=" ++ ";".intercalate cells)
  else "chash=" ++ hexN (cells.foldl (fun h s => fnvStr (fnvStr h s) ";") fnvInit).toNat

def hashOp (m : MS) (ar : State) (id : Nat) (t : Hash.Table) (w : List String) : MS × String :=
  let a := nat (w.getD 3 "0") % u32
  let b := nat (w.getD 4 "0") % u32
  let fin (ar' : State) (t' : Hash.Table) (st : String) (m' : MS := m) : MS × String :=
    ({ m' with arena := some ar', hashes := alSet m'.hashes id t' }, st ++ hashState ar' t')
  match w.getD 2 "" with
  | "insert" =>
    match allocOneshot ar 24 with
    | (ar1, none) => fin ar1 t "oom"
    | (ar1, some p) =>
      let (ar2, t') := Hash.insert ar1 t { uid := m.huid, key := a, hash := b }
      fin ar2 t' s!"ok node={locStr ar2 (some p)}" { m with huid := m.huid + 1 }
  | "get" => fin ar t ("ok found=" ++ b01 (Hash.get t a b).isSome)
  | "remove" =>
    match Hash.get t a b with
    | none => fin ar t "ok found=0"
    | some n => let (t', ok) := Hash.remove t n; fin ar t' ("ok found=1 removed=" ++ b01 ok)
  | "swap" =>
    let j := nat (w.getD 3 "0")
    match alGet m.hashes j with
    | some o => if j = id then (m, "bad-op") else
      ({ m with hashes := alSet (alSet m.hashes id o) j t }, "ok" ++ hashState ar o)
    | none => (m, "bad-op")
  | "release" => let (ar', t') := Hash.release ar t; fin ar' t' "ok"
  | "reset" => fin ar {} "ok"                                    -- `reset()`: back to the embedded bucket, nothing is freed
  | "move_from" =>
    let j := nat (w.getD 3 "0")
    match alGet m.hashes j with
    | some o => if j = id then (m, "bad-op") else
      ({ m with hashes := alSet (alSet m.hashes id o) j {} }, "ok" ++ hashState ar o)
    | none => (m, "bad-op")
  | "dump" => (m, "ok" ++ hashState ar t ++ " " ++ hashDump t)
  | _ => (m, "bad-op")

/-! ### tree -/
def treeState (e : TreeE) : String :=
  let n := (Tree.inorder 512 e.t e.t.root).length
  let s := Tree.dump 512 e.t e.t.root
  s!" n={n} tree=" ++ (if n > 400 then "#" ++ hashOf s else s)

def treeOp (m : MS) (ar : State) (id : Nat) (e : TreeE) (w : List String) : MS × String :=
  let a := nat (w.getD 3 "0") % u32
  let fin (m' : MS) (e' : TreeE) (st : String) : MS × String := ({ m' with trees := alSet m'.trees id e' }, st ++ treeState e')
  match w.getD 2 "" with
  | "insert" =>
    if Tree.get e.t a ≠ 0 then fin m e "ok dup=1" else
    match m.pool.alloc ar 24 with
    | (ar1, pool1, none) => fin { m with arena := some ar1, pool := pool1 } e "oom"
    | (ar1, pool1, some p) =>
      let (t1, n) := Tree.newNode e.t a
      let t2 := Tree.insertNode t1 n
      fin { m with arena := some ar1, pool := pool1 } { t := t2, locs := (n, p) :: e.locs } s!"ok dup=0 node={locStr ar1 (some p)} bytes=24"
  | "remove" =>
    let n := Tree.get e.t a
    if n = 0 then fin m e "ok found=0" else
    let t' := Tree.removeNode e.t n
    let p := (alGet e.locs n).getD (.dyn 0)
    fin { m with pool := m.pool.release p } { t := t', locs := e.locs.filter (·.1 != n) } s!"ok found=1 freed={locStr ar (some p)}"
  | "get" => fin m e ("ok found=" ++ b01 (Tree.get e.t a != 0))
  | "swap" =>
    let j := nat (w.getD 3 "0")
    match alGet m.trees j with
    | some o => if j = id then (m, "bad-op") else ({ m with trees := alSet (alSet m.trees id o) j e }, "ok" ++ treeState o)
    | none => (m, "bad-op")
  | _ => (m, "bad-op")

/-! ### list -/
def listFind (fuel : Nat) (h : ListPool.Heap) (n v : Nat) : Nat :=
  match fuel with
  | 0 => 0
  | fuel + 1 => if n = 0 then 0 else if (ListPool.nd h n).val = v then n else listFind fuel h (ListPool.nd h n).next v

def listState (h : ListPool.Heap) (l : ListPool.DList) : String :=
  let f := ListPool.walk h.size h l.first true
  let b := ListPool.walk h.size h l.last false
  s!" n={f.length} fwd:" ++ listOrHash (f.map toString) ++ " bwd:" ++ listOrHash (b.map toString)

def listOp (m : MS) (ar : State) (id : Nat) (l : ListPool.DList) (w : List String) : MS × String :=
  let a := nat (w.getD 3 "0") % u32
  let b := nat (w.getD 4 "0") % u32
  let h := m.heap
  let fin (m' : MS) (h' : ListPool.Heap) (l' : ListPool.DList) (st : String) : MS × String :=
    ({ m' with heap := h', lists := alSet m'.lists id l' }, st ++ listState h' l')
  let withNode (v : Nat) (k : ListPool.Heap → Nat → ListPool.Heap × ListPool.DList) : MS × String :=
    match allocOneshot ar 24 with
    | (ar1, none) => fin { m with arena := some ar1 } h l "oom"
    | (ar1, some p) =>
      let (h1, n) := ListPool.newNode h v
      let (h2, l2) := k h1 n
      fin { m with arena := some ar1 } h2 l2 s!"ok node={locStr ar1 (some p)} bytes=24"
  match w.getD 2 "" with
  | "append" => withNode a (fun h1 n => ListPool.addNode h1 l n true)
  | "prepend" => withNode a (fun h1 n => ListPool.addNode h1 l n false)
  | "insert_after" =>
    let ref := listFind h.size h l.first a
    if ref = 0 then fin m h l "precond" else withNode b (fun h1 n => ListPool.insertNode h1 l ref n true)
  | "insert_before" =>
    let ref := listFind h.size h l.first a
    if ref = 0 then fin m h l "precond" else withNode b (fun h1 n => ListPool.insertNode h1 l ref n false)
  | "unlink" =>
    let n := listFind h.size h l.first a
    if n = 0 then fin m h l "precond" else
    let (h', l') := ListPool.unlink h l n
    fin m h' l' (s!"ok r={(ListPool.nd h' n).val} clean=" ++ b01 ((ListPool.nd h' n).prev == 0 && (ListPool.nd h' n).next == 0))
  | "pop" =>
    if l.first = 0 then fin m h l "precond" else
    let (h', l', n) := ListPool.pop h l
    fin m h' l' (s!"ok r={(ListPool.nd h' n).val} clean=" ++ b01 ((ListPool.nd h' n).prev == 0 && (ListPool.nd h' n).next == 0))
  | "pop_first" =>
    if l.first = 0 then fin m h l "precond" else
    let (h', l', n) := ListPool.popFirst h l
    fin m h' l' (s!"ok r={(ListPool.nd h' n).val} clean=" ++ b01 ((ListPool.nd h' n).prev == 0 && (ListPool.nd h' n).next == 0))
  | "swap" =>
    let j := nat (w.getD 3 "0")
    match alGet m.lists j with
    | some o => if j = id then (m, "bad-op") else ({ m with lists := alSet (alSet m.lists id o) j l }, "ok" ++ listState h o)
    | none => (m, "bad-op")
  | "dump" => fin m h l "ok"
  | _ => (m, "bad-op")

/-! ### bit set -/
def bitsState (ar : State) (b : Bits.BitSet) : String :=
  let nw := Bits.wordsPerBits b.size
  let ws := (b.words.take nw).map fun w => hexN w.toNat
  s!" n={b.size} cap={b.cap} loc={locStr ar b.data} bytes={b.cap / 8} " ++
    (if nw ≤ 24 then (if ws.isEmpty then "w=-" else "w=" ++ ",".intercalate ws)
     else "whash=" ++ hexN (ws.foldl (fun h s => fnvStr (fnvStr h s) ",") fnvInit).toNat)

def errB : Bits.Err → String | .ok => "ok" | .oom => "oom"

def bitsOp (m : MS) (ar : State) (id : Nat) (bs : Bits.BitSet) (w : List String) : MS × String :=
  let a := nat (w.getD 3 "0")
  let b := nat (w.getD 4 "0")
  let n := bs.size
  let fin (ar' : State) (b' : Bits.BitSet) (st : String) (r : String := "") : MS × String :=
    ({ m with arena := some ar', bits := alSet m.bits id b' }, st ++ r ++ bitsState ar' b')
  let finO (r : Option Bits.BitSet) : MS × String :=
    match r with | some b' => fin ar b' "ok" | none => (m, "MODEL-OVERRUN")
  let finW (r : Option Bits.Words) : MS × String := finO (r.map fun ws => { bs with words := ws })
  let finE (r : Option (State × Bits.BitSet × Bits.Err)) : MS × String :=
    match r with | some (ar', b', e) => fin ar' b' (errB e) | none => (m, "MODEL-OVERRUN")
  let other : Option Bits.BitSet := if a = id then none else alGet m.bits a
  let hasData := bs.data.isSome
  match w.getD 2 "" with
  | "resize" => finE (Bits.resize ar bs a (b != 0))
  | "append" => finE (Bits.append ar bs (a != 0))
  | "set" => if a ≥ n then fin ar bs "precond" else finW (Bits.setBit bs.words a (b != 0))
  | "get" => if a ≥ n then fin ar bs "precond" else
      match Bits.getBit bs.words a with | some v => fin ar bs "ok" (" r=" ++ b01 v) | none => (m, "MODEL-OVERRUN")
  | "or" => if a ≥ n then fin ar bs "precond" else finW (Bits.orBit bs.words a (b != 0))
  | "xor" => if a ≥ n then fin ar bs "precond" else finW (Bits.xorBit bs.words a (b != 0))
  | "clear_bit" => if a ≥ n then fin ar bs "precond" else finW (Bits.setBit bs.words a false)
  | "fill" => if a > n ∨ n - a < b then fin ar bs "precond" else finW (Bits.bitVectorFill bs.words a b)
  | "clear_bits" => if a > n ∨ n - a < b then fin ar bs "precond" else finW (Bits.bitVectorClear bs.words a b)
  | "truncate" => if !hasData then fin ar bs "precond" else finO (Bits.truncate bs (a % u32))
  | "clear" => fin ar (Bits.clear bs) "ok"
  | "fill_all" => if !hasData then fin ar bs "precond" else finO (Bits.fillAll bs)
  | "clear_all" => if !hasData then fin ar bs "precond" else finO (Bits.clearAll bs)
  | "and" => match other with | some o => finO (Bits.and_ bs o) | none => (m, "bad-op")
  | "or_" => match other with
    | some o => if !hasData || !o.data.isSome then fin ar bs "precond" else finO (Bits.or_ bs o)
    | none => (m, "bad-op")
  | "andnot" => match other with | some o => finO (Bits.andNot bs o) | none => (m, "bad-op")
  | "copy_from" => match other with | some o => finE (Bits.copyFrom ar bs o) | none => (m, "bad-op")
  | "equals" => match other with | some o => fin ar bs "ok" (" r=" ++ b01 (Bits.equals bs o)) | none => (m, "bad-op")
  | "swap" => match other with
    | some o => ({ m with bits := alSet (alSet m.bits id o) a bs }, "ok" ++ bitsState ar o)
    | none => (m, "bad-op")
  | "release" => let (ar', b') := Bits.release ar bs; fin ar' b' "ok"
  | "index_of" =>
    let used := bs.words.take (Bits.wordsPerBits n)
    let lim := used.length * 64
    let exist := (List.range (lim - a)).any fun i => (Bits.getBit used (a + i)) == some (b != 0)
    if a ≥ lim ∨ !exist then fin ar bs "precond" else
    match Bits.indexOf used a (b != 0) with
    | some i => fin ar bs "ok" s!" r={i}"
    | none => (m, "MODEL-OVERRUN")
  | "iter" => fin ar bs "ok" (" r:" ++ listOrHash ((Bits.iterate (bs.words.take (Bits.wordsPerBits n)) 0).map toString))
  | "info" => fin ar bs "ok"
  | _ => (m, "bad-op")

/-! ### string -/
def bytesHex (bs : List Nat) : String := String.ofList (bs.flatMap fun b => [hexChar (b / 16 % 16), hexChar (b % 16)])
def hexBytes? (s : String) : Option (List Nat) := (hexToBytes? s).map (·.map (·.toNat))

def strState (s : Str.Str) : String :=
  let kind := match s.kind with | .small => "small" | .large => "large" | .ext => "ext"
  let c := Str.content s
  s!" kind={kind} n={s.size} cap={s.cap} nul={b01 (Str.terminated s)} " ++
    (if s.size ≤ 100000 then "s=" ++ (if c.isEmpty then "-" else bytesHex c) else "shash=" ++ hashOf (bytesHex c))

def errS : Str.Err → String | .ok => "ok" | .oom => "oom" | .invalidArgument => "inval"

def strOp (m : MS) (id : Nat) (s : Str.Str) (w : List String) : MS × String :=
  let a := nat (w.getD 3 "0")
  let b := nat (w.getD 4 "0")
  let x := nat (w.getD 5 "0")
  let y := nat (w.getD 6 "0")
  let fin (s' : Str.Str) (st : String) (r : String := "") : MS × String := ({ m with strs := alSet m.strs id s' }, st ++ r ++ strState s')
  let finE (r : Option (Str.Str × Str.Err)) : MS × String :=
    match r with | some (s', e) => fin s' (errS e) | none => (m, "MODEL-OVERRUN")
  let finO (r : Option Str.Str) : MS × String := match r with | some s' => fin s' "ok" | none => (m, "MODEL-OVERRUN")
  let hexArg (k : List Nat → MS × String) : MS × String :=
    match hexBytes? (w.getD 3 "") with | some bs => k bs | none => (m, "bad-op")
  match w.getD 2 "" with
  | "assign" => hexArg fun bs => finE (Str.assign s bs)
  | "assign_span" => hexArg fun bs => finE (Str.opString s true bs)
  | "append" => hexArg fun bs => finE (Str.opString s false bs)
  | "append_char" => finE (Str.opChar s false (a % 256))
  | "assign_char" => finE (Str.opChar s true (a % 256))
  | "append_chars" => finE (Str.opChars s false (a % 256) (b % u64))
  | "assign_chars" => finE (Str.opChars s true (a % 256) (b % u64))
  | "append_uint" => finE (Str.opNumber s false (a % u64) (b % u32) (x % u64) (y % u32))
  | "assign_uint" => finE (Str.opNumber s true (a % u64) (b % u32) (x % u64) (y % u32))
  | "append_int" => finE (Str.opNumber s false (a % u64) (b % u32) (x % u64) ((y % u32) ||| Str.kSigned))
  | "append_hex" => hexArg fun bs => finE (Str.opHex s false bs (b % 256))
  | "assign_hex" => hexArg fun bs => finE (Str.opHex s true bs (b % 256))
  | "append_format" => hexArg fun bs => if bs.contains 0 then (m, "bad-op") else finE (Str.opFormat s false bs)
  | "assign_format" => hexArg fun bs => if bs.contains 0 then (m, "bad-op") else finE (Str.opFormat s true bs)
  | "pad_end" => finE (Str.padEnd s (a % u64) (b % 256))
  | "truncate" => finO (Str.truncate s (a % u64))
  | "clear" => finO (Str.clear s)
  | "reset" => fin (Str.reset s) "ok"
  | "swap" =>
    match alGet m.strs a with
    | some o => if a = id ∨ s.kind == .ext ∨ o.kind == .ext then (m, "bad-op") else
      ({ m with strs := alSet (alSet m.strs id o) a s }, "ok" ++ strState o)
    | none => (m, "bad-op")
  | "move_from" | "move_ctor" =>
    match alGet m.strs a with
    | some o => if a = id ∨ s.kind == .ext ∨ o.kind == .ext then (m, "bad-op") else
      ({ m with strs := alSet (alSet m.strs id o) a {} }, "ok" ++ strState o)
    | none => (m, "bad-op")
  | "eq" => hexArg fun bs => fin s "ok" (" r=" ++ b01 (Str.equals s bs))
  | _ => (m, "bad-op")

/-! ### ArenaString -/
def astrState (ar : State) (z : ArenaStr.AStr) : String :=
  let c := ArenaStr.content z
  let loc := if z.isEmbedded then "none" else match z.ext with | some (p, _, _) => locStr ar (some p) | none => "none"
  let nul := if z.size == 0 && !z.isEmbedded then "?" else b01 (ArenaStr.terminated z)
  s!" n={z.size} emb={b01 z.isEmbedded} loc={loc} bytes={alignUp (z.size + 1) 8} nul={nul} s=" ++
    (if c.isEmpty then "-" else bytesHex c) ++ s!" whole={z.whole}"

def astrOp (m : MS) (ar : State) (id : Nat) (z : ArenaStr.AStr) (w : List String) : MS × String :=
  match w.getD 2 "" with
  | "set" =>
    match hexBytes? (w.getD 3 "") with
    | none => (m, "bad-op")
    | some bs =>
      match ArenaStr.setData ar z bs with
      | none => (m, "MODEL-OVERRUN")
      | some (ar', z', e) =>
        ({ m with arena := some ar', astrs := alSet m.astrs id z' }, (match e with | .ok => "ok" | .oom => "oom") ++ astrState ar' z')
  | "reset" => let z' := ArenaStr.reset z
               ({ m with astrs := alSet m.astrs id z' }, "ok" ++ astrState ar z')
  | _ => (m, "bad-op")

def primesLine : String :=
  let rows := AsmjitVerif.Gen.hashPrimes
  let h := rows.foldl (fun h (p, r, s, g) => fnvStr h s!"{p},{r},{s},{g};") fnvInit
  s!"rows={rows.length} hash={hexN h.toNat}"

def modelStep (m : MS) (line : String) : MS × String :=
  let w := words line
  match w with
  | "A" :: _ => arenaOp m w
  | ["H", "primes"] => (m, primesLine)
  | c :: "new" :: idS :: rest =>
    let id := nat idS
    if c == "S" then
      match rest with
      | ["tmp", n] => if nat n = 32 ∨ nat n = 100 then
          let s := Str.newTmp (nat n); ({ m with strs := alSet m.strs id s }, "ok" ++ strState s) else (m, "bad-op")
      | _ => let s : Str.Str := {}; ({ m with strs := alSet m.strs id s }, "ok" ++ strState s)
    else if m.arena.isNone then (m, "bad-op")
    else match c, rest with
      | "V", [it] => if (nat it ≠ 4 ∧ nat it ≠ 12 ∧ nat it ≠ 1) ∨ (alGet m.vecs id).isSome then (m, "bad-op")
                     else ({ m with vecs := alSet m.vecs id (nat it, {}) }, "ok")
      | "H", _ => if (alGet m.hashes id).isSome then (m, "bad-op") else ({ m with hashes := alSet m.hashes id {} }, "ok")
      | "T", _ => if (alGet m.trees id).isSome then (m, "bad-op") else ({ m with trees := alSet m.trees id {} }, "ok")
      | "L", _ => if (alGet m.lists id).isSome then (m, "bad-op") else ({ m with lists := alSet m.lists id {} }, "ok")
      | "B", _ => if (alGet m.bits id).isSome then (m, "bad-op") else ({ m with bits := alSet m.bits id {} }, "ok")
      | "Z", [n] => if (nat n ≠ 16 ∧ nat n ≠ 40) ∨ (alGet m.astrs id).isSome then (m, "bad-op")
                    else ({ m with astrs := alSet m.astrs id (ArenaStr.new (nat n)) }, "ok")
      | _, _ => (m, "bad-op")
  | c :: idS :: _ :: _ =>
    let id := nat idS
    if idS.toNat?.isNone then (m, "bad-op") else
    if c == "S" then match alGet m.strs id with | some s => strOp m id s w | none => (m, "bad-op") else
    match m.arena with
    | none => (m, "bad-op")
    | some ar =>
      match c with
      | "V" => match alGet m.vecs id with | some (item, v) => vecOp m ar id item v w | none => (m, "bad-op")
      | "H" => match alGet m.hashes id with | some t => hashOp m ar id t w | none => (m, "bad-op")
      | "T" => match alGet m.trees id with | some e => treeOp m ar id e w | none => (m, "bad-op")
      | "L" => match alGet m.lists id with | some l => listOp m ar id l w | none => (m, "bad-op")
      | "B" => match alGet m.bits id with | some b => bitsOp m ar id b w | none => (m, "bad-op")
      | "Z" => match alGet m.astrs id with | some z => astrOp m ar id z w | none => (m, "bad-op")
      | _ => (m, "bad-op")
  | _ => (m, "bad-op")

def step (st : MS × MonC18.Mon) (line : String) : (MS × MonC18.Mon) × String :=
  if line.startsWith "M " then
    let (mon, o) := MonC18.monStep st.2 (line.drop 2).toString
    ((st.1, mon), o)
  else
    let (m, o) := modelStep st.1 line
    ((m, st.2), o)

def main : IO Unit := do
  lineLoop (← IO.getStdin) (← IO.getStdout) (({}, {}) : MS × MonC18.Mon) step

end Driver.C18
