import AsmjitVerif.Spec.C18
import Driver.Common
/-!
C18 monitor: judges one answer of the IMPLEMENTATION (harness/c18.cpp) against the textbook data types and the
structural predicates of `Spec/C18.lean`.  Independent of the models.  Input lines: `M <op> | <answer>`.
-/
namespace Driver.MonC18
open AsmjitVerif.SpecC18

def alGet {α : Type} (l : List (Nat × α)) (k : Nat) : Option α := (l.find? (·.1 == k)).map (·.2)
def alSet {α : Type} (l : List (Nat × α)) (k : Nat) (v : α) : List (Nat × α) := (k, v) :: l.filter (·.1 != k)
def nat (s : String) : Nat := s.toNat?.getD 0

structure Mon where
  regions : List Region := []
  vecs : List (Nat × List Nat) := []
  hashes : List (Nat × List (Nat × Nat)) := []
  trees : List (Nat × List Nat) := []
  lists : List (Nat × List Nat) := []
  bits : List (Nat × List Bool) := []
  strs : List (Nat × List Nat) := []
  pooled : Nat := 0
  deriving Inhabited

abbrev KV := List (String × String)
def kvOf (ws : List String) : KV :=
  ws.filterMap fun t => match t.splitOn "=" with
    | [k, v] => some (k, v)
    | _ => none
def kv (m : KV) (k : String) : Option String := (m.find? (·.1 == k)).map (·.2)
def kvN (m : KV) (k : String) : Nat := nat ((kv m k).getD "0")

def hexN (n : Nat) : String := Driver.toHex n
def listOrHash (xs : List String) : String :=
  if xs.length ≤ 48 then (if xs.isEmpty then "items=-" else "items=" ++ ",".intercalate xs)
  else "hash=" ++ hexN (xs.foldl (fun h s => Driver.fnvStr (Driver.fnvStr h s) ",") Driver.fnvInit).toNat

/-- does the reported `items=…|hash=…` (key prefix `pre`) describe `xs`? -/
def sameList (m : KV) (pre : String) (xs : List Nat) : Bool :=
  let want := listOrHash (xs.map toString)
  match want.splitOn "=" with
  | [k, v] => kv m (pre ++ k) == some v
  | _ => false

/-- "b<pos>:<bsize>+<off>" -/
def parseLoc (s : String) : Option (Nat × Nat × Nat) :=
  if !s.startsWith "b" then none else
  match (s.drop 1).toString.splitOn ":" with
  | [p, rest] => match rest.splitOn "+" with
    | [bs, off] => match p.toNat?, bs.toNat?, off.toNat? with
      | some p, some bs, some off => some (p, bs, off)
      | _, _, _ => none
    | _ => none
  | _ => none

/-- record that `owner` now owns `bytes` at `loc`; `some why` = the arena property is violated -/
def setRegion (mon : Mon) (owner loc : String) (bytes : Nat) : Mon × Option String :=
  let others := mon.regions.filter (·.owner != owner)
  if loc == "none" ∨ loc == "dyn" then ({ mon with regions := others }, none)
  else match parseLoc loc with
    | none => (mon, some s!"pointer of {owner} is in no arena block: {loc}")
    | some (pos, bs, off) =>
      let r : Region := { owner := owner, pos := pos, off := off, size := bytes }
      if mon.regions.any (· == r) then (mon, none)
      else if regionOk others r bs then ({ mon with regions := r :: others }, none)
      else (mon, some s!"arena: region {loc} size {bytes} of {owner} is misaligned, outside its block or overlaps a live region")

def swapOwners (mon : Mon) (a b : String) : Mon :=
  { mon with regions := mon.regions.map fun r =>
      if r.owner == a then { r with owner := b } else if r.owner == b then { r with owner := a } else r }

def bad (mon : Mon) (why : String) : Mon × String := (mon, "BAD " ++ why)
def good (mon : Mon) : Mon × String := (mon, "good")

/-- generic `loc= bytes=` handling for an owner -/
def regionStep (mon : Mon) (owner : String) (a : KV) : Mon × Option String :=
  match kv a "loc" with
  | some loc => setRegion mon owner loc (kvN a "bytes")
  | none => (mon, none)

def big (n : Nat) : Bool := n ≥ 2 ^ 31

/-! ### vector -/
def firstIdx (l : List Nat) (x : Nat) : String := match l.findIdx? (· == x) with | some i => toString i | none => "none"
def lastIdx (l : List Nat) (x : Nat) : String :=
  match l.reverse.findIdx? (· == x) with | some i => toString (l.length - 1 - i) | none => "none"

def vecMon (mon : Mon) (id : Nat) (w : List String) (st : String) (a : KV) : Mon × String :=
  let l := (alGet mon.vecs id).getD []
  let x := nat (w.getD 3 "0")
  let y := nat (w.getD 4 "0") % 2 ^ 32
  let xv := x % 2 ^ 32
  let op := w.getD 2 ""
  -- expected status / new list / expected r
  let pre : Bool := match op with
    | "insert" => x > l.length | "remove_at" => x ≥ l.length | "pop" => l.isEmpty | "first_last" => l.isEmpty | _ => false
  if pre then (if st == "precond" then good mon else bad mon s!"V{id} {op}: precondition answer expected, got {st}") else
  if st == "oom" then
    (if (op == "reserve_fit" ∨ op == "reserve_grow" ∨ op == "reserve_add" ∨ op == "resize_fit" ∨ op == "resize_grow") ∧ big x
     then (if sameList a "" l then good mon else bad mon s!"V{id} {op}: failed but the contents changed")
     else bad mon s!"V{id} {op} {x}: spurious out-of-memory") else
  if st != "ok" then bad mon s!"V{id} {op}: status {st}" else
  if (op == "resize_fit" ∨ op == "resize_grow") ∧ big x then
    -- a giant resize answered ok is never materialised by the monitor: only the header is judged
    (if kvN a "n" ≠ x then bad mon s!"V{id} {op} {x}: answered ok but size() = {kvN a "n"}"
     else if kvN a "cap" < x then bad mon s!"V{id} {op} {x}: answered ok but capacity() = {kvN a "cap"}"
     else good mon) else
  let (mon, l', r) : Mon × List Nat × Option String := match op with
    | "append" => (mon, l ++ [xv], none)
    | "prepend" => (mon, xv :: l, none)
    | "insert" => (mon, l.take x ++ y :: l.drop x, none)
    | "remove_at" => (mon, l.eraseIdx x, none)
    | "pop" => (mon, l.dropLast, some (toString (l.getLast?.getD 0)))
    | "clear" => (mon, [], none)
    | "truncate" => (mon, l.take x, none)
    | "resize_fit" | "resize_grow" => (mon, l.take x ++ List.replicate (x - l.length) 0, none)
    | "concat" => (mon, l ++ (alGet mon.vecs x).getD [], none)
    | "swap" => (swapOwners { mon with vecs := alSet mon.vecs x l } s!"V{id}" s!"V{x}", (alGet mon.vecs x).getD [], none)
    | "release" => (mon, [], none)
    | "move_from" | "move_ctor" =>
      let mon1 := { mon with regions := mon.regions.filter (·.owner != s!"V{id}"), vecs := alSet mon.vecs x [] }
      (swapOwners mon1 s!"V{id}" s!"V{x}", (alGet mon.vecs x).getD [], none)
    | "index_of" => (mon, l, some (firstIdx l xv))
    | "last_index_of" => (mon, l, some (lastIdx l xv))
    | "contains" => (mon, l, some (if l.contains xv then "1" else "0"))
    | "first_last" => (mon, l, some s!"{l.headD 0},{l.getLastD 0}")
    | "span_eq" => (mon, l, some (if l == (alGet mon.vecs x).getD [] then "1" else "0"))
    | _ => (mon, l, none)
  let mon := { mon with vecs := alSet mon.vecs id l' }
  if (op == "reserve_fit" ∨ op == "reserve_grow") ∧ kvN a "cap" < x then bad mon s!"V{id} {op} {x}: ok but capacity {kvN a "cap"}" else
  if op == "reserve_add" ∧ kvN a "cap" - kvN a "n" < x then bad mon s!"V{id} reserve_add {x}: ok but only {kvN a "cap" - kvN a "n"} free" else
  if kvN a "n" ≠ l'.length then bad mon s!"V{id} {op}: size {kvN a "n"}, textbook list has {l'.length}" else
  if !sameList a "" l' then bad mon s!"V{id} {op}: contents differ from the textbook list {l'.take 20}" else
  if kvN a "cap" < kvN a "n" then bad mon s!"V{id}: capacity < size" else
  if r.isSome ∧ kv a "r" ≠ r then bad mon s!"V{id} {op} {xv}: answered {kv a "r"}, textbook {r}" else
  if (kv a "spanswap").isSome then bad mon s!"V{id}: Span::swap did not exchange the two views" else
  if op == "iter" ∧ !sameList a "r:" l' then bad mon s!"V{id} iterate(): not the items in order" else
  if op == "riter" ∧ !sameList a "r:" l'.reverse then bad mon s!"V{id} iterate_reverse(): not the items in reverse order" else
  match regionStep mon s!"V{id}" a with
  | (mon, some why) => bad mon why
  | (mon, none) => good mon

/-! ### hash -/
def parseChains (s : String) : Option (List (Nat × List (Nat × Nat))) :=
  if s == "-" then some [] else
  (s.splitOn ";").mapM fun cell => match cell.splitOn ":" with
    | [i, ns] => do
      let nodes ← (ns.splitOn ",").mapM fun n => match n.splitOn "/" with
        | [k, h] => do some ((← k.toNat?), (← h.toNat?))
        | _ => none
      some ((← i.toNat?), nodes)
    | _ => none

def hashMon (mon : Mon) (id : Nat) (w : List String) (st : String) (a : KV) : Mon × String :=
  let l := (alGet mon.hashes id).getD []
  let k := nat (w.getD 3 "0") % 2 ^ 32
  let h := nat (w.getD 4 "0") % 2 ^ 32
  let op := w.getD 2 ""
  if st != "ok" then bad mon s!"H{id} {op}: status {st}" else
  -- membership exactly as the real matcher sees it: `get(key)` walks only the bucket of the SUPPLIED hash code and compares keys
  let nb := max (kvN a "buckets") 1
  let sameNode : Nat × Nat → Bool := fun p => p.1 == k && p.2 % nb == h % nb
  let present := l.any sameNode
  let (mon, l', chk) : Mon × List (Nat × Nat) × Option String := match op with
    | "insert" => (mon, l ++ [(k, h)], none)
    | "get" => (mon, l, if kv a "found" == some (if present then "1" else "0") then none else some s!"get {k}: found={kv a "found"} but textbook membership is {present}")
    | "remove" =>
      if kv a "found" != some (if present then "1" else "0") then (mon, l, some s!"remove {k}: found={kv a "found"} but textbook membership is {present}")
      else if present ∧ kv a "removed" != some "1" then (mon, l, some s!"remove {k}: node reachable by get but not by _remove")
      else (mon, l.eraseP sameNode, none)
    | "swap" => (swapOwners { mon with hashes := alSet mon.hashes k l } s!"H{id}" s!"H{k}", (alGet mon.hashes k).getD [], none)
    | "release" | "reset" => (mon, [], none)
    | "move_from" =>
      let mon1 := { mon with regions := mon.regions.filter (·.owner != s!"H{id}"), hashes := alSet mon.hashes k [] }
      (swapOwners mon1 s!"H{id}" s!"H{k}", (alGet mon.hashes k).getD [], none)
    | _ => (mon, l, none)
  let mon := { mon with hashes := alSet mon.hashes id l' }
  match chk with
  | some why => bad mon s!"H{id} {why}"
  | none =>
  if kvN a "n" ≠ l'.length then bad mon s!"H{id} {op}: size {kvN a "n"}, textbook multiset has {l'.length}" else
  if kvN a "n" > kvN a "grow" then bad mon s!"H{id}: {kvN a "n"} nodes exceed the grow limit {kvN a "grow"} of {kvN a "buckets"} buckets" else
  let chainsOk : Option String := match kv a "chains" with
    | none => none
    | some cs => match parseChains cs with
      | none => some "unparsable dump"
      | some chains =>
        let nb := kvN a "buckets"
        if chains.any (fun (i, ns) => i ≥ nb ∨ ns.any (fun (_, hh) => hh % nb ≠ i)) then some "a node is not in bucket hash % buckets (unreachable by get)"
        else if !multisetEq (chains.flatMap (·.2)) l' then some "the nodes reachable from the buckets are not the textbook multiset"
        else none
  match chainsOk with
  | some why => bad mon s!"H{id} dump: {why}"
  | none =>
  let (mon, e1) := match kv a "node" with
    | some loc => setRegion mon s!"H{id}:{loc}" loc 24
    | none => (mon, none)
  match e1 with
  | some why => bad mon why
  | none => match regionStep mon s!"H{id}" a with
    | (mon, some why) => bad mon why
    | (mon, none) => good mon

/-! ### tree -/
partial def parseRB (cs : List Char) : Option (RB × List Char) :=
  match cs with
  | '.' :: rest => some (.nil, rest)
  | '(' :: rest =>
    let ds := rest.takeWhile Char.isDigit
    match rest.drop ds.length with
    | c :: rest2 =>
      if c != 'R' ∧ c != 'B' then none else
      match parseRB rest2 with
      | none => none
      | some (l, rest3) => match parseRB rest3 with
        | none => none
        | some (r, ')' :: rest4) => some (.node (nat (String.ofList ds)) (c == 'R') l r, rest4)
        | _ => none
    | [] => none
  | _ => none

def treeMon (mon : Mon) (id : Nat) (w : List String) (st : String) (a : KV) : Mon × String :=
  let l := (alGet mon.trees id).getD []
  let k := nat (w.getD 3 "0") % 2 ^ 32
  let op := w.getD 2 ""
  if st != "ok" then bad mon s!"T{id} {op}: status {st}" else
  let present := l.contains k
  let flag (name : String) : Option String :=
    if kv a name == some (if present then "1" else "0") then none else some s!"{op} {k}: {name}={kv a name} but textbook membership is {present}"
  let (mon, l', chk) : Mon × List Nat × Option String := match op with
    | "insert" => (mon, setInsert k l, flag "dup")
    | "remove" => (mon, setErase k l, flag "found")
    | "get" => (mon, l, flag "found")
    | "swap" => ({ mon with trees := alSet mon.trees k l }, (alGet mon.trees k).getD [], none)
    | _ => (mon, l, none)
  let mon := { mon with trees := alSet mon.trees id l' }
  match chk with
  | some why => bad mon s!"T{id} {why}"
  | none =>
  if kvN a "n" ≠ l'.length then bad mon s!"T{id} {op} {k}: {kvN a "n"} nodes, textbook set has {l'.length}" else
  let shape : Option String := match kv a "tree" with
    | none => some "no dump"
    | some s => if s.startsWith "#" then none else
      match parseRB s.toList with
      | some (t, []) =>
        if t.inorder != l' then some "in-order keys differ from the textbook sorted set"
        else if t.isRed then some "root is red"
        else if !t.noRedRed then some "a red node has a red child"
        else if t.blackHeight.isNone then some "black height differs between paths"
        else if !t.valid then some "not a search tree"
        else none
      | _ => some "unparsable dump"
  match shape with
  | some why => bad mon s!"T{id} after {op} {k}: {why}"
  | none =>
  let mon := match kv a "node", kv a "freed" with
    | some _, _ => { mon with pooled := mon.pooled - 1 }      -- a node was taken (from the pool if it held one)
    | none, some _ => { mon with pooled := mon.pooled + 1 }
    | none, none => mon
  let (mon, e1) := match kv a "node", kv a "freed" with
    | some loc, _ => setRegion mon s!"T:{loc}" loc 24
    | none, some loc => setRegion mon s!"T:{loc}" "none" 0
    | none, none => (mon, none)
  match e1 with
  | some why => bad mon why
  | none => good mon

/-! ### list -/
def listMon (mon : Mon) (id : Nat) (w : List String) (st : String) (a : KV) : Mon × String :=
  let l := (alGet mon.lists id).getD []
  let x := nat (w.getD 3 "0") % 2 ^ 32
  let y := nat (w.getD 4 "0") % 2 ^ 32
  let op := w.getD 2 ""
  let pre : Bool := match op with
    | "insert_after" | "insert_before" | "unlink" => !l.contains x
    | "pop" | "pop_first" => l.isEmpty
    | _ => false
  if pre then (if st == "precond" then good mon else bad mon s!"L{id} {op}: precondition answer expected, got {st}") else
  if st != "ok" then bad mon s!"L{id} {op}: status {st}" else
  let i := (l.findIdx? (· == x)).getD 0
  let (mon, l', r) : Mon × List Nat × Option String := match op with
    | "append" => (mon, l ++ [x], none)
    | "prepend" => (mon, x :: l, none)
    | "insert_after" => (mon, l.take (i + 1) ++ y :: l.drop (i + 1), none)
    | "insert_before" => (mon, l.take i ++ y :: l.drop i, none)
    | "unlink" => (mon, l.eraseIdx i, some (toString x))
    | "pop" => (mon, l.dropLast, some (toString (l.getLast?.getD 0)))
    | "pop_first" => (mon, l.drop 1, some (toString (l.head?.getD 0)))
    | "swap" => ({ mon with lists := alSet mon.lists x l }, (alGet mon.lists x).getD [], none)
    | _ => (mon, l, none)
  let mon := { mon with lists := alSet mon.lists id l' }
  if kvN a "n" ≠ l'.length then bad mon s!"L{id} {op}: {kvN a "n"} nodes, textbook list has {l'.length}" else
  if !sameList a "fwd:" l' then bad mon s!"L{id} {op}: forward traversal differs from the textbook list {l'.take 20}" else
  if !sameList a "bwd:" l'.reverse then bad mon s!"L{id} {op}: backward traversal is not the reverse of the textbook list" else
  if r.isSome ∧ kv a "r" ≠ r then bad mon s!"L{id} {op}: returned {kv a "r"}, textbook {r}" else
  if r.isSome ∧ kv a "clean" ≠ some "1" then bad mon s!"L{id} {op}: removed node keeps links" else
  match kv a "node" with
  | some loc => match setRegion mon s!"L:{loc}" loc 24 with
    | (mon, some why) => bad mon why
    | (mon, none) => good mon
  | none => good mon

/-! ### bit set -/
def setAt (l : List Bool) (i : Nat) (f : Bool → Bool) : List Bool := l.modify i f
def rangeSet (l : List Bool) (s c : Nat) (v : Bool) : List Bool := l.mapIdx fun i b => if s ≤ i ∧ i < s + c then v else b

def bitsMon (mon : Mon) (id : Nat) (w : List String) (st : String) (a : KV) : Mon × String :=
  let l := (alGet mon.bits id).getD []
  let x := nat (w.getD 3 "0")
  let y := nat (w.getD 4 "0")
  let v := y != 0
  let op := w.getD 2 ""
  let o := (alGet mon.bits x).getD []
  let n := l.length
  let pre : Bool := match op with
    | "set" | "get" | "or" | "xor" | "clear_bit" => x ≥ n
    | "fill" | "clear_bits" => x > n ∨ n - x < y
    | _ => false
  if pre then (if st == "precond" then good mon else bad mon s!"B{id} {op}: precondition answer expected, got {st}") else
  if st == "precond" then
    (if op == "truncate" ∨ op == "fill_all" ∨ op == "clear_all" ∨ op == "or_" ∨ op == "index_of" then good mon
     else bad mon s!"B{id} {op}: unexpected precondition answer") else
  if st == "oom" then (if (op == "resize" ∧ big x) then good mon else bad mon s!"B{id} {op}: spurious out-of-memory") else
  if op == "resize" ∧ big x then
    -- a huge bit set is not materialised by the monitor: only the header is judged
    (if st != "ok" then bad mon s!"B{id} resize {x}: status {st}"
     else if kvN a "n" ≠ x then bad mon s!"B{id} resize {x}: answered ok but size() = {kvN a "n"}"
     else if kvN a "cap" < kvN a "n" then bad mon s!"B{id} resize {x}: answered ok but capacity() = {kvN a "cap"} < size()"
     else good mon) else
  if st != "ok" then bad mon s!"B{id} {op}: status {st}" else
  let (mon, l', r) : Mon × List Bool × Option String := match op with
    | "resize" => (mon, l.take x ++ List.replicate (x - n) v, none)
    | "append" => (mon, l ++ [x != 0], none)
    | "set" => (mon, setAt l x (fun _ => v), none)
    | "get" => (mon, l, some (if l.getD x false then "1" else "0"))
    | "or" => (mon, setAt l x (· || v), none)
    | "xor" => (mon, setAt l x (fun b => b != v), none)
    | "clear_bit" => (mon, setAt l x (fun _ => false), none)
    | "fill" => (mon, rangeSet l x y true, none)
    | "clear_bits" => (mon, rangeSet l x y false, none)
    | "truncate" => (mon, l.take x, none)
    | "clear" => (mon, [], none)
    | "fill_all" => (mon, l.map fun _ => true, none)
    | "clear_all" => (mon, l.map fun _ => false, none)
    | "and" => (mon, l.mapIdx fun i b => b && o.getD i false, none)
    | "or_" => (mon, l.mapIdx fun i b => b || o.getD i false, none)
    | "andnot" => (mon, l.mapIdx fun i b => b && !o.getD i false, none)
    | "copy_from" => (mon, o, none)
    | "equals" => (mon, l, some (if l == o then "1" else "0"))
    | "swap" => (swapOwners { mon with bits := alSet mon.bits x l } s!"B{id}" s!"B{x}", o, none)
    | "release" => (mon, [], none)
    | "index_of" =>
      let padded := l ++ List.replicate ((n + 63) / 64 * 64 - n) false
      (mon, l, some (match (padded.drop x).findIdx? (· == v) with | some i => toString (x + i) | none => "?"))
    | _ => (mon, l, none)
  let mon := { mon with bits := alSet mon.bits id l' }
  if kvN a "n" ≠ l'.length then bad mon s!"B{id} {op}: size {kvN a "n"}, textbook bit list has {l'.length}" else
  if kvN a "cap" < kvN a "n" then bad mon s!"B{id}: capacity < size" else
  let wordsChk : Option String := match kv a "w" with
    | none => none
    | some ws =>
      let words := if ws == "-" then [] else (ws.splitOn ",").map fun h => (Driver.parseHex? h).getD 0
      if bitsOfWords words l'.length != l' then some s!"bits differ from the textbook bit list (first 70: {(bitsOfWords words l'.length).take 70 |>.map fun b => if b then 1 else 0} vs {l'.take 70 |>.map fun b => if b then 1 else 0})"
      else if !tailClean words l'.length then some "bits beyond size are set in the last word"
      else none
  match wordsChk with
  | some why => bad mon s!"B{id} {op} {x} {y}: {why}"
  | none =>
  if op == "iter" ∧ !sameList a "r:" ((List.range l'.length).filter fun i => l'.getD i false) then bad mon s!"B{id} iter: not the set bits in ascending order" else
  if r.isSome ∧ kv a "r" ≠ r then bad mon s!"B{id} {op} {x}: answered {kv a "r"}, textbook {r}" else
  match regionStep mon s!"B{id}" a with
  | (mon, some why) => bad mon why
  | (mon, none) => good mon

/-! ### string -/
def hexBytes? (s : String) : Option (List Nat) := (Driver.hexToBytes? s).map (·.map (·.toNat))
def bytesHex (bs : List Nat) : String := String.ofList (bs.flatMap fun b => [Driver.hexChar (b / 16 % 16), Driver.hexChar (b % 16)])
def hexUpper (n : Nat) : Nat := if n < 10 then 48 + n else 55 + n

/-- textbook check of the text `_op_number` appended: sign / prefix / zero padding / digits that parse back -/
def numberOk (t : List Nat) (v base0 width flags : Nat) (signedOp : Bool) : Bool :=
  let base := if base0 = 0 then 10 else base0
  let neg := signedOp ∧ v ≥ 2 ^ 63
  let mag := if neg then 2 ^ 64 - v else v
  let (t, okS) : List Nat × Bool :=
    if neg then (t.drop 1, t.head? == some 45)
    else if flags &&& 1 ≠ 0 then (t.drop 1, t.head? == some 43)
    else if flags &&& 2 ≠ 0 then (t.drop 1, t.head? == some 32)
    else (t, true)
  let (t, okP) : List Nat × Bool :=
    if flags &&& 4 ≠ 0 ∧ base = 16 then (t.drop 2, t.take 2 == [48, 120])
    else if flags &&& 4 ≠ 0 ∧ base = 8 ∧ v ≠ 0 then (t.drop 1, t.head? == some 48)
    else (t, true)
  let minimal := (Nat.toDigits base mag).length
  okS && okP && parseDigits base t == some mag && t.length == max (min width 256) minimal

def strMon (mon : Mon) (id : Nat) (w : List String) (st : String) (a : KV) : Mon × String :=
  let l := (alGet mon.strs id).getD []
  let x := nat (w.getD 3 "0")
  let y := nat (w.getD 4 "0")
  let z := nat (w.getD 5 "0")
  let f := nat (w.getD 6 "0")
  let op := w.getD 2 ""
  let bs := (hexBytes? (w.getD 3 "")).getD []
  let isNum := op == "append_uint" ∨ op == "assign_uint" ∨ op == "append_int"
  let same : Bool := kvN a "n" == l.length && (if l.length ≤ 100000 then kv a "s" == some (if l.isEmpty then "-" else bytesHex l) else true)
  if st == "inval" then
    (if isNum ∧ ¬ (y = 0 ∨ y = 2 ∨ y = 8 ∨ y = 10 ∨ y = 16) ∧ same then good mon else bad mon s!"S{id} {op}: unexpected invalid-argument answer or contents changed") else
  if st == "oom" ∧ op == "append_format_w" then
    -- an output too large for the allocator: the failure must leave the string as it was, terminator included
    (if x < 2 ^ 20 then bad mon s!"S{id} {op}: spurious out-of-memory"
     else if !same then bad mon s!"S{id} {op}: failed but the contents changed"
     else if kv a "nul" ≠ some "1" then bad mon s!"S{id} {op}: failed (out of memory) and left the string without its null terminator"
     else good mon) else
  if st == "oom" then
    (if (op == "append_chars" ∨ op == "assign_chars" ∨ op == "pad_end") ∧ (y ≥ 2 ^ 40 ∨ x ≥ 2 ^ 40) ∧ same then good mon
     else bad mon s!"S{id} {op}: spurious out-of-memory or contents changed") else
  if st != "ok" then bad mon s!"S{id} {op}: status {st}" else
  if ((op == "append_chars" ∨ op == "assign_chars") ∧ y ≥ 2 ^ 31) ∨ (op == "pad_end" ∧ x ≥ 2 ^ 31) then
    bad mon s!"S{id} {op}: a request of more than 2^31 characters answered ok" else
  if isNum ∧ ¬ (y = 0 ∨ y = 2 ∨ y = 8 ∨ y = 10 ∨ y = 16) then bad mon s!"S{id} {op}: base {y} accepted" else
  let hx (sep : Nat) : List Nat :=
    let cells := bs.map fun b => [hexUpper (b / 16), hexUpper (b % 16)]
    if sep ≠ 0 then (cells.intersperse [sep]).flatten else cells.flatten
  let reported : Option (List Nat) := (kv a "s").bind fun s => if s == "-" then some [] else hexBytes? s
  let (mon, l', chk) : Mon × List Nat × Option String := match op with
    | "new" => (mon, [], none)
    | "assign" | "assign_span" | "assign_format" => (mon, bs, none)
    | "append" | "append_format" => (mon, l ++ bs, none)
    | "append_char" => (mon, l ++ [x % 256], none)
    | "assign_char" => (mon, [x % 256], none)
    | "append_chars" => (mon, l ++ List.replicate y (x % 256), none)
    | "assign_chars" => (mon, List.replicate y (x % 256), none)
    | "append_uint" | "append_int" | "assign_uint" =>
      let base := if op == "assign_uint" then [] else l
      match reported with
      | some s =>
        if s.take base.length != base then (mon, l, some "the old contents were not kept")
        else if numberOk (s.drop base.length) x y z f (op == "append_int") then (mon, s, none)
        else (mon, l, some s!"the appended text {String.ofList ((s.drop base.length).map Char.ofNat)} is not the number {x} in base {y} (width {z}, flags {f})")
      | none => (mon, l, some "number text not reported")
    | "append_hex" => (mon, l ++ hx (y % 256), none)
    | "assign_hex" => (mon, hx (y % 256), none)
    | "pad_end" => (mon, l ++ List.replicate (x - l.length) (y % 256), none)
    | "truncate" => (mon, l.take x, none)
    | "clear" | "reset" => (mon, [], none)
    | "swap" => ({ mon with strs := alSet mon.strs x l }, (alGet mon.strs x).getD [], none)
    | "move_from" | "move_ctor" => ({ mon with strs := alSet mon.strs x [] }, (alGet mon.strs x).getD [], none)
    | _ => (mon, l, none)
  let mon := { mon with strs := alSet mon.strs id l' }
  match chk with
  | some why => bad mon s!"S{id} {op}: {why}"
  | none =>
  if kvN a "n" ≠ l'.length then bad mon s!"S{id} {op}: size {kvN a "n"}, textbook byte string has {l'.length}" else
  if kv a "nul" ≠ some "1" then bad mon s!"S{id} {op}: not null terminated" else
  if kvN a "cap" < kvN a "n" then bad mon s!"S{id}: capacity < size" else
  if l'.length ≤ 100000 ∧ reported ≠ some l' then bad mon s!"S{id} {op}: contents {kv a "s"} differ from the textbook byte string {bytesHex l'}" else
  if l'.length > 100000 ∧ kv a "shash" ≠ some (hexN (Driver.fnvStr Driver.fnvInit (bytesHex l')).toNat) then bad mon s!"S{id} {op}: contents differ from the textbook byte string (hash)" else
  if op == "eq" ∧ kv a "r" ≠ some (if l == bs then "1" else "0") then bad mon s!"S{id} eq: wrong answer" else
  good mon

/-! ### ArenaString -/
def astrMon (mon : Mon) (id : Nat) (w : List String) (st : String) (a : KV) : Mon × String :=
  let op := w.getD 2 ""
  let bs := if op == "set" then (hexBytes? (w.getD 3 "")).getD [] else []
  if st != "ok" then bad mon s!"Z{id} {op}: status {st}" else
  let whole := kvN a "whole"
  if kvN a "n" ≠ bs.length then bad mon s!"Z{id} {op}: size {kvN a "n"}, textbook string has {bs.length}" else
  if kv a "s" ≠ some (if bs.isEmpty then "-" else bytesHex bs) then bad mon s!"Z{id} {op}: contents differ from the textbook string" else
  if kv a "nul" == some "0" then bad mon s!"Z{id} {op}: not null terminated" else
  if (kv a "emb" == some "1") ≠ (bs.length ≤ whole - 5) then bad mon s!"Z{id} {op}: embedded/external choice does not match the object size" else
  match regionStep mon s!"Z{id}" a with
  | (mon, some why) => bad mon why
  | (mon, none) => good mon

/-! ### arena -/
def arenaMon (mon : Mon) (w : List String) (st : String) (a : KV) : Mon × String :=
  match w.getD 1 "" with
  | "new" | "reset" => ({ mon with regions := [], vecs := [], hashes := [], trees := [], lists := [], bits := [], pooled := 0 }, "good")
  | "one" =>
    if st == "null" then (if big (nat (w.getD 2 "0")) then good mon else bad mon "A one: spurious null") else
    match kv a "loc" with
    | some loc => match setRegion mon s!"one:{loc}" loc (kvN a "bytes") with
      | (mon, some why) => bad mon why
      | (mon, none) => good mon
    | none => bad mon "A one: no location"
  | "get" =>
    if st == "null" then (if big (nat (w.getD 3 "0")) then good mon else bad mon "A get: spurious null") else
    if kvN a "bytes" < nat (w.getD 3 "0") then bad mon "A get: allocated size smaller than requested" else
    if kvN a "bytes" ≤ 2048 ∧ kv a "loc" == some "dyn" then bad mon "A get: a size-class request is served from a dynamic block (some block was released with a wrong size)" else
    match regionStep mon s!"A{nat (w.getD 2 "0")}" a with
    | (mon, some why) => bad mon why
    | (mon, none) => good mon
  | "put" => match regionStep mon s!"A{nat (w.getD 2 "0")}" a with
    | (mon, some why) => bad mon why
    | (mon, none) => good mon
  | "dup" =>
    let bs := ((Driver.hexToBytes? (w.getD 2 "")).map (·.map (·.toNat))).getD []
    let nt := if w.getD 3 "" == "1" then 1 else 0
    if st == "null" then (if bs.isEmpty then good mon else bad mon "A dup: spurious null") else
    if bs.isEmpty then bad mon "A dup: empty input must give nullptr" else
    if kvN a "bytes" < bs.length + nt ∨ kvN a "bytes" % 8 ≠ 0 then bad mon "A dup: block too small or unaligned size" else
    if kv a "s" ≠ some (String.ofList (bs.flatMap fun b => [Driver.hexChar (b / 16 % 16), Driver.hexChar (b % 16)])) then bad mon "A dup: copy differs from the input" else
    if kv a "pad0" ≠ some "1" then bad mon "A dup: padding / terminator not zero" else
    (match kv a "loc" with
     | some loc => match setRegion mon s!"dup:{loc}" loc (kvN a "bytes") with
       | (mon, some why) => bad mon why
       | (mon, none) => good mon
     | none => bad mon "A dup: no location")
  | "pool" =>
    let mon := if w.getD 2 "" == "reset" then { mon with pooled := 0 } else mon
    if kvN a "r" ≠ mon.pooled then bad mon s!"A pool: pooled_item_count() = {kvN a "r"}, textbook stack holds {mon.pooled}" else good mon
  | "stats" =>
    if kvN a "used" > kvN a "reserved" then bad mon "A stats: used > reserved" else good mon
  | _ => good mon

def monStep (mon : Mon) (line : String) : Mon × String :=
  match line.splitOn " | " with
  | [opS, ansS] =>
    let w := Driver.words opS
    let aw := Driver.words ansS
    let st := aw.headD ""
    let a := kvOf aw
    if st == "bad-op" then good mon else
    match w with
    | "A" :: _ => arenaMon mon w st a
    | ["H", "primes"] => good mon
    | c :: "new" :: idS :: _ =>
      if c == "S" then strMon mon (nat idS) [c, idS, "new"] st a else good mon
    | c :: idS :: _ =>
      let id := nat idS
      match c with
      | "V" => vecMon mon id w st a
      | "H" => hashMon mon id w st a
      | "T" => treeMon mon id w st a
      | "L" => listMon mon id w st a
      | "B" => bitsMon mon id w st a
      | "S" => strMon mon id w st a
      | "Z" => astrMon mon id w st a
      | _ => good mon
    | _ => good mon
  | _ => (mon, "bad-op")

end Driver.MonC18
