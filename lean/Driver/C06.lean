import AsmjitVerif.Model.CallConv
import AsmjitVerif.Spec.ABI
import AsmjitVerif.Spec.Machine
import Driver.Common
open AsmjitVerif.CallConv
namespace Driver.C06

def parseEnv : String → Option Env
  | "x86l" => some ⟨.x86, false, false⟩
  | "x86w" => some ⟨.x86, true, false⟩
  | "x64l" => some ⟨.x64, false, false⟩
  | "x64w" => some ⟨.x64, true, false⟩
  | "a64l" => some ⟨.a64, false, false⟩
  | "a64d" => some ⟨.a64, false, true⟩
  | _ => none

def valStr (v : FuncValue) : String :=
  (if v.isReg then s!"R{v.regType}.{v.regId}.{v.typeId}"
   else if v.isStack then s!"S{v.stackOffset}.{v.typeId}" else s!"U{v.typeId}") ++ (if v.isIndirect then "i" else "")

def packStr (p : List FuncValue) : String := if p.isEmpty then "-" else "/".intercalate (p.map valStr)

def listStr (l : List Nat) : String := ",".intercalate (l.map toString)

def ccStr (cc : CallConv) : String :=
  let g (order : List Nat) (pres : Nat) (i : Nat) : String :=
    s!" g{i}={listStr order};{toHex (maskOf order)};{toHex pres};{cc.srSize.getD i 0};{cc.srAlign.getD i 0}"
  s!"ok id={cc.id} strat={cc.strategy} rz={cc.redZone} sz={cc.spillZone} nsa={cc.naturalAlign} flags={toHex cc.flags}" ++
    g cc.gpOrder cc.presGp 0 ++ g cc.vecOrder cc.presVec 1 ++ g cc.maskOrder 0 2 ++ g cc.mmOrder 0 3

def parseNats (l : List String) : Option (List Nat) := l.mapM (·.toNat?)

/-- `<env> <ccid> <va> <ret> <n> <tid>*n` followed by whatever is left -/
def parseSig (ws : List String) : Option (Env × Signature × List String) :=
  match ws with
  | e :: cc :: va :: ret :: n :: rest => do
    let e ← parseEnv e
    let cc ← cc.toNat?
    let va ← va.toNat?
    let ret ← ret.toNat?
    let n ← n.toNat?
    if n > 32 || rest.length < n then none else
    let ts ← parseNats (rest.take n)
    if ts.any (· > 255) || cc > 255 || va > 255 || ret > 255 then none else
    some (e, { ccid := cc, vaIndex := va, ret := ret, args := ts }, rest.drop n)
  | _ => none

def fdStr (d : Detail) : String :=
  s!"ok ss={d.argStackSize} ret={packStr d.rets} args=" ++
    (if d.args.isEmpty then "-" else ",".intercalate (d.args.map packStr)) ++
    s!" used={toHex d.usedGp}:{toHex d.usedVec}:0:0"

/-- parse `R5.7.38i` / `S8.42` / `U45` -/
def parseVal (s : String) : Option FuncValue :=
  let ind := s.endsWith "i"
  let body := if ind then (s.dropEnd 1).toString else s
  match body.toList with
  | c :: rest =>
    let fs := (String.ofList rest).splitOn "."
    match c, fs.mapM (·.toNat?) with
    | 'R', some [rt, id, t] => some (.reg t rt id ind)
    | 'S', some [off, t] => some (.stack t off ind)
    | 'U', some [t] => some { typeId := t, isIndirect := ind }
    | _, _ => none
  | [] => none

def parsePack (s : String) : Option (List FuncValue) :=
  if s == "-" then some [] else (s.splitOn "/").mapM parseVal

open AsmjitVerif.ABI in
/-- `monfd <sig> <ss> <flags hex> <rz> <sz> <nsa> <presGp hex> <presVec hex> <retpack> <argpack>*n` -/
def monFd (ws : List String) : String :=
  match parseSig ws with
  | some (e, sig, ss :: fl :: rz :: sz :: nsa :: pg :: pv :: rp :: aps) =>
    match ss.toNat?, parseHex? fl, rz.toNat?, sz.toNat?, nsa.toNat?, parseHex? pg, parseHex? pv, parsePack rp, aps.mapM parsePack with
    | some ss, some fl, some rz, some sz, some nsa, some pg, some pv, some rp, some aps =>
      match convOf e sig.ccid with
      | none => "skip no-abi"
      | some c =>
        let rs := e.regSize
        let args := sig.args.map (deabstract rs)
        let o : Observed := { argStackSize := ss, args := aps, rets := rp.map (fun v => (v.regType, v.regId)),
                              calleePops := fl &&& fCalleePops != 0, redZone := rz, spillZone := sz, naturalAlign := nsa,
                              presGp := pg, presVec := pv }
        match monitor c (sig.vaIndex ≠ 255) (deabstract rs sig.ret) args o with
        | none => "skip domain"
        | some true => "good"
        | some false => "BAD " ++ monitorWhy c (sig.vaIndex ≠ 255) (deabstract rs sig.ret) args o ++
            " want ss=" ++ toString (argStackSize c (sig.vaIndex ≠ 255) args) ++ " args=" ++
            ",".intercalate ((argsFrom c (sig.vaIndex ≠ 255) [] args).map packStr)
    | _, _, _, _, _, _, _, _, _ => "bad-op"
  | _ => "bad-op"


/-! ### monitor of the argument shuffle: the implementation's instruction list run on Spec/Machine.lean -/
namespace Shuffle
open AsmjitVerif.Machine

def parseOpnd (s : String) : Option Opnd :=
  match s.toList with
  | 'r' :: rest =>
    match ((String.ofList rest).splitOn ".").mapM (·.toNat?) with
    | some [rt, id] => some (.reg rt id)
    | _ => none
  | 'm' :: rest =>
    match (String.ofList rest).splitOn "." with
    | [b, o, sz] => do some (.mem (← b.toNat?) (← o.toInt?) (← sz.toNat?))
    | _ => none
  | _ => none

def parseInst (s : String) : Option Inst :=
  match words s with
  | name :: ops => do some { name := name, ops := ← ops.mapM parseOpnd }
  | [] => none

/-- `RegUtils::type_id_of` for the register types a destination may have -/
def typeIdOfReg (rt : Nat) : Nat :=
  if rt = 2 || rt = 3 then 34 else if rt = 4 then 36 else if rt = 5 then 38 else if rt = 6 then 40 else if rt = 9 then 55
  else if rt = 10 then 65 else if rt = 11 then 75 else if rt = 12 then 85 else if rt = 13 then 95 else if rt = 28 then 50 else 0

/-- destination token `-` | `r<rt>.<id>[.<tid>]` | `s<off>[.<tid>]` → (location, explicit type) -/
def parseDst (s : String) : Option (Option (Loc × Nat × Nat)) :=   -- (loc, regtype or 0, type or 0)
  if s == "-" then some none else
  match s.toList with
  | 'r' :: rest =>
    match ((String.ofList rest).splitOn ".").mapM (·.toNat?) with
    | some [rt, id] => some (some (.reg (groupOf rt) id, rt, 0))
    | some [rt, id, t] => some (some (.reg (groupOf rt) id, rt, t))
    | _ => none
  | 's' :: rest =>
    match ((String.ofList rest).splitOn ".") with
    | [o] => do some (some (.outStack (← o.toInt?), 0, 0))
    | [o, t] => do some (some (.outStack (← o.toInt?), 0, ← t.toNat?))
    | _ => none
  | _ => none

/-- `monsh <sig> <ff> <sa> <dst>*n | <implementation answer>` -/
def monStep (ws : List String) : String :=
  match parseSig ws with
  | some (e, sig, _ff :: _sa :: rest) =>
    let n := sig.args.length
    let dsts := rest.take n
    match rest.drop n with
    | "|" :: status :: more =>
      if status != "ok" then "refused" else
      match more with
      | saTok :: "|" :: instWords =>
        match initFuncDetail e sig, dsts.mapM parseDst, (saTok.drop 3).toString.splitOn "." with
        | .ok (_, d), some ds, [saId, _, saOff] =>
          match saId.toNat?, saOff.toInt?, ((" ".intercalate instWords).splitOn ";").filter (· ≠ "") |>.mapM parseInst with
          | some saId, some saOff, some insts =>
            let sp := if e.arch = .a64 then 31 else 4
            let srcs := d.args.map (·.headD (FuncValue.ofType 0))
            let vars : List VarInfo := (srcs.zip ds).map fun (src, dd) =>
              match dd with
              | some (_, rt, t) => { srcType := src.typeId, dstType := if t ≠ 0 then t else if rt ≠ 0 then typeIdOfReg rt else src.typeId }
              | none => { srcType := src.typeId, dstType := src.typeId }
            let idx := List.range n
            let init : State := (idx.zip (srcs.zip ds)).filterMap fun (i, src, dd) =>
              match dd with
              | none => none
              | some _ =>
                if src.isReg then some (Loc.reg (groupOf src.regType) src.regId, { var := i, ext := false })
                else if src.isStack then some (Loc.argStack src.stackOffset, { var := i, ext := false }) else none
            let dests : List (Nat × Loc) := (idx.zip ds).filterMap fun (i, dd) => dd.map fun (l, _, _) => (i, l)
            match run vars saId saOff sp init insts with
            | none => "BAD unknown-instruction-or-address"
            | some fin =>
              if shuffleOk vars dests fin then "good"
              else
                let bad := dests.filter fun (v, l) => !destOk vars fin v l
                "BAD dest-of-arg " ++ toString (bad.map (·.1))
          | _, _, _ => "bad-op insts"
        | .error m, _, _ => "skip fd-" ++ m
        | _, _, _ => "bad-op dst"
      | _ => "bad-op ans"
    | _ => "bad-op sep"
  | _ => "bad-op sig"

end Shuffle

def step (_ : Unit) (line : String) : Unit × String :=
  match words line with
  | ["cc", e, id] =>
    match parseEnv e, id.toNat? with
    | some e, some id =>
      match initCallConv e id with
      | some cc => ((), ccStr cc)
      | none => ((), "err InvalidArgument")
    | _, _ => ((), "bad-op")
  | "fd" :: rest =>
    match parseSig rest with
    | some (e, sig, []) =>
      match initFuncDetail e sig with
      | .ok (_, d) => ((), fdStr d)
      | .error m => ((), "err " ++ m)
    | _ => ((), "bad-op")
  | "monfd" :: rest => ((), monFd rest)
  | "monsh" :: rest => ((), Shuffle.monStep rest)
  | _ => ((), "bad-op")

def main : IO Unit := do
  lineLoop (← IO.getStdin) (← IO.getStdout) () step

end Driver.C06
