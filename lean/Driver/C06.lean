import AsmjitVerif.Model.CallConv
import AsmjitVerif.Spec.ABI
import AsmjitVerif.Model.ArgShuffle
import AsmjitVerif.Spec.Machine
import AsmjitVerif.Lemmas.C06ShuffleTop
import Driver.Common
import Driver.InvokeC06
open AsmjitVerif.CallConv
namespace Driver.C06

def parseEnv : String → Option Env
  | "x86l" => some ⟨.x86, false, false⟩
  | "x86w" => some ⟨.x86, true, false⟩
  | "x64l" => some ⟨.x64, false, false⟩
  | "x64w" => some ⟨.x64, true, false⟩
  | "a64l" => some ⟨.a64, false, false⟩
  | "a64d" => some ⟨.a64, false, true⟩
  | _ => none

def valStr (v : FuncValue) : String :=
  (if v.isReg then s!"R{v.regType}.{v.regId}.{v.typeId}"
   else if v.isStack then s!"S{v.stackOffset}.{v.typeId}" else s!"U{v.typeId}") ++ (if v.isIndirect then "i" else "")

def packStr (p : List FuncValue) : String := if p.isEmpty then "-" else "/".intercalate (p.map valStr)

def listStr (l : List Nat) : String := ",".intercalate (l.map toString)

def ccStr (cc : CallConv) : String :=
  let g (order : List Nat) (pres : Nat) (i : Nat) : String :=
    s!" g{i}={listStr order};{toHex (maskOf order)};{toHex pres};{cc.srSize.getD i 0};{cc.srAlign.getD i 0}"
  s!"ok id={cc.id} strat={cc.strategy} rz={cc.redZone} sz={cc.spillZone} nsa={cc.naturalAlign} flags={toHex cc.flags}" ++
    g cc.gpOrder cc.presGp 0 ++ g cc.vecOrder cc.presVec 1 ++ g cc.maskOrder 0 2 ++ g cc.mmOrder 0 3

def parseNats (l : List String) : Option (List Nat) := l.mapM (·.toNat?)

/-- `<env> <ccid> <va> <ret> <n> <tid>*n` followed by whatever is left -/
def parseSig (ws : List String) : Option (Env × Signature × List String) :=
  match ws with
  | e :: cc :: va :: ret :: n :: rest => do
    let e ← parseEnv e
    let cc ← cc.toNat?
    let va ← va.toNat?
    let ret ← ret.toNat?
    let n ← n.toNat?
    if n > 32 || rest.length < n then none else
    let ts ← parseNats (rest.take n)
    if ts.any (· > 255) || cc > 255 || va > 255 || ret > 255 then none else
    some (e, { ccid := cc, vaIndex := va, ret := ret, args := ts }, rest.drop n)
  | _ => none

def fdStr (d : Detail) : String :=
  s!"ok ss={d.argStackSize} ret={packStr d.rets} args=" ++
    (if d.args.isEmpty then "-" else ",".intercalate (d.args.map packStr)) ++
    s!" used={toHex d.usedGp}:{toHex d.usedVec}:0:0"

/-- parse `R5.7.38i` / `S8.42` / `U45` -/
def parseVal (s : String) : Option FuncValue :=
  let ind := s.endsWith "i"
  let body := if ind then (s.dropEnd 1).toString else s
  match body.toList with
  | c :: rest =>
    let fs := (String.ofList rest).splitOn "."
    match c, fs.mapM (·.toNat?) with
    | 'R', some [rt, id, t] => some (.reg t rt id ind)
    | 'S', some [off, t] => some (.stack t off ind)
    | 'U', some [t] => some { typeId := t, isIndirect := ind }
    | _, _ => none
  | [] => none

def parsePack (s : String) : Option (List FuncValue) :=
  if s == "-" then some [] else (s.splitOn "/").mapM parseVal

open AsmjitVerif.ABI in
/-- `monfd <sig> <ss> <flags hex> <rz> <sz> <nsa> <presGp hex> <presVec hex> <retpack> <argpack>*n` -/
def monFd (ws : List String) : String :=
  match parseSig ws with
  | some (e, sig, ss :: fl :: rz :: sz :: nsa :: pg :: pv :: rp :: aps) =>
    match ss.toNat?, parseHex? fl, rz.toNat?, sz.toNat?, nsa.toNat?, parseHex? pg, parseHex? pv, parsePack rp, aps.mapM parsePack with
    | some ss, some fl, some rz, some sz, some nsa, some pg, some pv, some rp, some aps =>
      match convOf e sig.ccid with
      | none => "skip no-abi"
      | some c =>
        let rs := e.regSize
        let args := sig.args.map (deabstract rs)
        let o : Observed := { argStackSize := ss, args := aps, rets := rp.map (fun v => (v.regType, v.regId)),
                              calleePops := fl &&& fCalleePops != 0, redZone := rz, spillZone := sz, naturalAlign := nsa,
                              presGp := pg, presVec := pv }
        match monitor c (sig.vaIndex ≠ 255) (deabstract rs sig.ret) args o with
        | none => "skip domain"
        | some true => "good"
        | some false => "BAD " ++ monitorWhy c (sig.vaIndex ≠ 255) (deabstract rs sig.ret) args o ++
            " want ss=" ++ toString (argStackSize c (sig.vaIndex ≠ 255) args) ++ " args=" ++
            ",".intercalate ((argsFrom c (sig.vaIndex ≠ 255) [] args).map packStr)
    | _, _, _, _, _, _, _, _, _ => "bad-op"
  | _ => "bad-op"


/-! ### the argument shuffle: model (`shm`) and monitor (`monsh`) -/
namespace Shuffle
open AsmjitVerif.Shuffle AsmjitVerif.Machine

def opndStr : Opnd → String
  | .reg rt id => s!"r{rt}.{id}"
  | .mem b o n => s!"m{b}.{o}.{n}"

def instStr (i : Inst) : String := " ".intercalate (i.text :: i.ops.map opndStr)

def parseOpnd (s : String) : Option Opnd :=
  match s.toList with
  | 'r' :: rest =>
    match ((String.ofList rest).splitOn ".").mapM (·.toNat?) with
    | some [rt, id] => some (.reg rt id)
    | _ => none
  | 'm' :: rest =>
    match (String.ofList rest).splitOn "." with
    | [b, o, sz] => do some (.mem (← b.toNat?) (← o.toInt?) (← sz.toNat?))
    | _ => none
  | _ => none

def allMn : List Mn :=
  [.mov, .movzx, .movsx, .movsxd, .xchg, .movd, .movq, .movss, .movsd, .movaps, .movups, .movapd, .movdqa, .vmovdqa32, .kmovb, .kmovw,
   .kmovd, .kmovq, .movq2dq, .movdq2q, .cvtss2sd, .cvtsd2ss, .cvtps2pd, .cvtpd2ps, .ldr, .ldrb, .ldrh, .ldrsb, .ldrsh, .ldrsw, .str,
   .strb, .strh, .fmov, .sxtb, .sxth, .sxtw, .uxtb, .uxth, .fcvt]

def parseMn (s : String) : Option (Mn × Bool) :=
  match allMn.find? (·.text == s) with
  | some m => some (m, false)
  | none => (allMn.find? fun m => "v" ++ m.text == s).map fun m => (m, true)

def parseInst (s : String) : Option Inst :=
  match words s with
  | name :: ops => do
    let (m, vex) ← parseMn name
    some { name := m, vex := vex, ops := ← ops.mapM parseOpnd }
  | [] => none

/-- destination token `-` | `r<rt>.<id>[.<tid>]` | `s<off>[.<tid>]` as the `FuncValue` FuncArgsAssignment holds -/
def parseDst (s : String) : Option (Option FuncValue) :=
  if s == "-" then some none else
  match s.toList with
  | 'r' :: rest =>
    match ((String.ofList rest).splitOn ".").mapM (·.toNat?) with
    | some [rt, id] => some (some (.reg 0 rt id))
    | some [rt, id, t] => some (some (.reg t rt id))
    | _ => none
  | 's' :: rest =>
    match ((String.ofList rest).splitOn ".").mapM (·.toNat?) with
    | some [o] => some (some (.stack 0 o))
    | some [o, t] => some (some (.stack t o))
    | _ => none
  | _ => none

structure ShLine where
  env : Env
  sig : Signature
  ff : Nat
  argsSa : Nat
  dsts : List (Option FuncValue)
  rest : List String

def parseSh (ws : List String) : Option ShLine :=
  match parseSig ws with
  | some (e, sig, ff :: sa :: rest) => do
    let n := sig.args.length
    if rest.length < n then none else
    let ds ← (rest.take n).mapM parseDst
    let ff ← parseHex? ff
    let sa ← if sa == "-" then some 255 else sa.toNat?
    some ⟨e, sig, ff, sa, ds, rest.drop n⟩
  | _ => none

def cfgOf (l : ShLine) : Cfg :=
  { arch := l.env.arch, avx := l.ff &&& 6 != 0, avx512 := l.ff &&& 4 != 0,
    stackAlign := if l.env.arch = .x86 && l.env.win then 4 else 16 }

def i32 (n : Int) : Int := if n ≥ 2147483648 then n - 4294967296 else n

/-- frame facts `fp da saReg offSp offSa d0..d3 p0..p3` -/
def parseFrame (ws : List String) : Option FrameIn :=
  match ws.mapM (·.toInt?) with
  | some [fp, da, sa, osp, osa, d0, d1, d2, d3, p0, p1, p2, p3] =>
    some { fp := fp != 0, da := da != 0, saReg := sa.toNat, saOffSp := i32 osp, saOffSa := i32 osa,
           dirty := [d0.toNat, d1.toNat, d2.toNat, d3.toNat], preserved := [p0.toNat, p1.toNat, p2.toNat, p3.toNat] }
  | _ => none

def valsOf (d : Detail) (dsts : List (Option FuncValue)) : List (FuncValue × Option FuncValue) :=
  (d.args.map (·.headD (FuncValue.ofType 0))).zip dsts

/-- `shm <sh line> # <frame facts>`: the model's answer `status | instructions` -/
def shStep (ws : List String) : String :=
  match parseSh ws with
  | some l =>
    match l.rest with
    | "#" :: fr =>
      match parseFrame fr, initFuncDetail l.env l.sig with
      | some f, .ok (_, d) =>
        let (st, insts) := emitArgsAssignment (cfgOf l) f l.argsSa (valsOf d l.dsts)
        (match st with | none => "ok" | some m => "err " ++ m) ++ " | " ++ ";".intercalate (insts.map instStr)
      | _, .error m => "fd-err " ++ m
      | none, _ => "bad-op frame"
    | _ => "bad-op sep"
  | none => "bad-op sig"

/-- `wf0 <sh line> # <frame facts>`: runtime guard of the hypothesis of `shuffle_correct_regs` -/
def wfStep (ws : List String) : String :=
  match parseSh ws with
  | some l =>
    match l.rest with
    | "#" :: fr =>
      match parseFrame fr, initFuncDetail l.env l.sig with
      | some f, .ok (_, d) =>
        if l.argsSa != 255 then "skip sa" else
        match AsmjitVerif.C06S.initialWfCheck (cfgOf l) f (valsOf d l.dsts) with
        | none => "skip"
        | some true => "good"
        | some false => "BAD initial-context-not-WF"
      | _, _ => "skip"
    | _ => "bad-op sep"
  | none => "bad-op sig"

/-- `monsh <sh line> | <status...> sa=<id>.<da>.<off> fr=... | <instructions>` -/
def monStep (ws : List String) : String :=
  match parseSh ws with
  | some l =>
    match l.rest with
    | "|" :: status :: more =>
      if status != "ok" then "refused" else
      match more with
      | _saTok :: frTok :: "|" :: instWords =>
        match initFuncDetail l.env l.sig, parseFrame ((frTok.drop 3).toString.splitOn ".") with
        | .ok (_, d), some f =>
          match ((" ".intercalate instWords).splitOn ";").filter (· ≠ "") |>.mapM parseInst with
          | some insts =>
            let (vars, init, dests) := setup (valsOf d l.dsts)
            match run vars f l.env.arch (saInit f ++ init) insts with
            | none => "BAD unknown-instruction-or-address"
            | some fin =>
              if shuffleOk dests fin then "good"
              else "BAD dest-of-arg " ++ toString ((dests.filter fun (v, loc) => !destOk fin v loc).map (·.1))
          | none => "bad-op insts"
        | .error m, _ => "skip fd-" ++ m
        | _, _ => "bad-op frame"
      | _ => "bad-op ans"
    | _ => "bad-op sep"
  | none => "bad-op sig"

end Shuffle

def step (_ : Unit) (line : String) : Unit × String :=
  match words line with
  | ["cc", e, id] =>
    match parseEnv e, id.toNat? with
    | some e, some id =>
      match initCallConv e id with
      | some cc => ((), ccStr cc)
      | none => ((), "err InvalidArgument")
    | _, _ => ((), "bad-op")
  | "fd" :: rest =>
    match parseSig rest with
    | some (e, sig, []) =>
      match initFuncDetail e sig with
      | .ok (_, d) => ((), fdStr d)
      | .error m => ((), "err " ++ m)
    | _ => ((), "bad-op")
  | "monfd" :: rest => ((), monFd rest)
  | "monsh" :: rest => ((), Shuffle.monStep rest)
  | "shm" :: rest => ((), Shuffle.shStep rest)
  | "wf0" :: rest => ((), Shuffle.wfStep rest)
  | "ivm" :: rest => ((), Driver.C06I.ivmStep rest)
  | "moniv" :: rest => ((), Driver.C06I.monStep rest)
  | "monivx" :: rest => ((), Driver.C06I.monIvx rest)
  | _ => ((), "bad-op")

def main : IO Unit := do
  lineLoop (← IO.getStdin) (← IO.getStdout) () step

end Driver.C06
