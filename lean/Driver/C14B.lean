import AsmjitVerif.Model.BuilderC14
import Driver.Common
open AsmjitVerif.Builder AsmjitVerif.BuilderC14
namespace Driver.C14B

/-! Builder sessions of C14 on Model/Builder.lean + Model/BuilderC14.lean (see tools/props/c14.py).

  new <regSize 4|8>
  [@<opts hex>,<extra tok|->,<cmt 1|->] label | bind <l> | align <m> <n> | embed <hex|-> | data <ty> <items> <rep> <tag> | elabel <l> <size>
      | edelta <l> <b> <size> | newsec | section <s> | cpool <l> <isz> <hex|->
  emit <opts hex> <extra tok|-> <cmt 1|-> <verdict name|-> <id> <op tokens ...>
  serialize
  -> <ok|pre|err Name> nod=<linked nodes> cur=<1-based position of the cursor, 0 = none> all=<nodes created>
  -> (serialize) the calls `serialize_to` issues, as harness lines, separated by " ; "
-/

def showRes : Res → String
  | .ok => "ok" | .pre => "pre" | .err e => "err " ++ e

def cursorPos (s : St) : Nat :=
  match s.l.cursor with
  | none => 0
  | some c => match s.l.list.findIdx? (· == c) with
    | some i => i + 1
    | none => 0

def showSt (s : St) (r : Res) : String :=
  s!"{showRes r} nod={s.l.list.length} cur={cursorPos s} all={s.f.nodes.length}"

def parsePlain (ws : List String) : Option Op :=
  match ws with
  | ["label"] => some .newlabel
  | ["bind", l] => do some (.bind (← l.toNat?))
  | ["align", m, n] => do some (.align (← m.toNat?) (← n.toNat?))
  | ["embed", h] => some (.embed h)
  | ["data", ty, items, rep, tag] => do some (.data (← ty.toNat?) (← items.toNat?) (← rep.toNat?) tag)
  | ["elabel", l, z] => do some (.elabel (← l.toNat?) (← z.toNat?))
  | ["edelta", l, b, z] => do some (.edelta (← l.toNat?) (← b.toNat?) (← z.toNat?))
  | ["newsec"] => some .newsection
  | ["section", i] => do some (.section (← i.toNat?))
  | ["cpool", l, isz, h] => do some (.cpool (← l.toNat?) (← isz.toNat?) h)
  | _ => none

def trimNone (ops : List Operand) : List Operand := (ops.reverse.dropWhile (· == "-")).reverse

def callLine : Call → String
  | .inst id opts extra cmt ops =>
    s!"emit {id} {toHex opts} {extra} {if cmt == "-" then "0" else "1"} " ++ " ".intercalate (trimNone ops)
  | .bind l => s!"bind {l}"
  | .align m n => s!"align {m} {n}"
  | .data ty items rep bytes =>
    if bytes.startsWith "embedarr_" then bytes.replace "_" " "
    else if ty == 35 && rep == 1 then s!"embed {bytes}"
    else s!"embedarr {ty} - {items} {rep}"
  | .elabel l z => s!"elabel {l} {z}"
  | .edelta l b z => s!"edelta {l} {b} {z}"
  | .comment t => s!"comment {t}"
  | .section i => s!"section {i}"
  | .cpoolnode l a b => s!"cpoolnode {l} {a} {b}"     -- a Compiler's ConstPoolNode (never produced by the C14 sessions)

def stepLine (s : St) (ws : List String) : St × String :=
  match ws with
  | ["new", r] => (St.init (r.toNat?.getD 8), "ok")
  | ["serialize"] => (s, " ; ".intercalate ((serialize s).map callLine))
  | "emit" :: o :: x :: c :: v :: id :: ops =>
    match parseHex? o, id.toNat? with
    | some o, some id =>
      let r := stepX s (.emit o x c (if v == "-" then none else some v) id ops)
      (r.1, showSt r.1 r.2)
    | _, _ => (s, "badline")
  | pre :: rest =>
    if pre.startsWith "@" then
      match (pre.drop 1).toString.splitOn ",", parsePlain rest with
      | [o, x, c], some op =>
        match parseHex? o with
        | some o =>
          let s1 : St := { s with f := { s.f with opts := s.f.opts ||| o, extra := x, cmt := c } }
          let r := step s1 op
          -- the harness drops what a non-instruction call leaves pending (it has been judged by the monitor)
          (clearOneShot r.1, showSt r.1 r.2 ++ s!" os={toHex r.1.f.opts},{r.1.f.extra},{r.1.f.cmt}")
        | none => (s, "badline")
      | _, _ => (s, "badline")
    else
      match parsePlain ws with
      | some op => let r := step s op; (r.1, showSt r.1 r.2)
      | none => (s, "badline")
  | [] => (s, "badline")

def main : IO Unit := do
  let stdin ← IO.getStdin
  let stdout ← IO.getStdout
  lineLoop stdin stdout (St.init 8) fun s line => stepLine s (words line)

end Driver.C14B
