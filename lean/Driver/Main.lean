import Driver.C17

def main (args : List String) : IO UInt32 := do
  match args with
  | ["C17"] => Driver.C17.main; return 0
  | _ => IO.eprintln "usage: vdriver <component>"; return 2
