import AsmjitVerif.Spec.X86Decode
import AsmjitVerif.Model.X86Front
import Driver.Common
import Std.Data.HashMap
open Spec.X86
namespace Driver.C01

/-! Line protocol of C01 (see harness/c01.cpp for the `emit` syntax).

  form <name> <modes> <space> <pp> <map> <w> <l> <opcode> <ri> <modKind> <modr> <modrm> <immBytes> <relBytes> <moff>
       <osz> <a67> <tuple> <elem> <kmask> <zmask> <er> <sae> <bcst> <immrev> <nops> { <role> <implicit> <nalts> <alt>* }     -> (nothing)
       alt = r.<kind>.<fixed|-> | m.<size|->.<vsib kind> | i.<bits>.<sign>.<fixed|-> | l.<bits>
  chk <mode> <base|-> <off> <name> <opts> <k> <operand>* = <hex bytes>         -> good <form index> | BAD <stage> <reason>
  enc <mode> <base|-> <off> <row: id enc main alt iflags aflags> <opts> <k> <operand>*   -> ok <hex> | err <code> | unmodelled
-/

structure State where
  forms : Std.HashMap String (Array Rule) := {}

def natOrNone (s : String) : Option (Option Nat) := if s == "-" then some none else s.toNat?.map some

def parseAlt (s : String) : Option Alt :=
  match s.splitOn "." with
  | ["r", k, fx] => do some (.reg (← RegKind.ofName k) (← natOrNone fx))
  | ["m", sz, vs] => do some (.mem (← natOrNone sz) (← RegKind.ofName vs))
  | ["i", b, sg, fx] => do some (.imm (← b.toNat?) (← sg.toNat?) (← natOrNone fx))
  | ["l", b] => do some (.rel (← b.toNat?))
  | _ => none

def roleOf : Nat → Option Role
  | 0 => some .none | 1 => some .reg | 2 => some .rm | 3 => some .vvvv | 4 => some .is4 | 5 => some .opc | 6 => some .imm
  | 7 => some .rel | 8 => some .moff | 9 => some .implmem | _ => none

def parseFormOps : Nat → List String → Option (List FormOp)
  | 0, [] => some []
  | 0, _ => none
  | n + 1, role :: impl :: na :: rest => do
    let na ← na.toNat?
    if rest.length < na then none else
    let alts ← (rest.take na).mapM parseAlt
    let more ← parseFormOps n (rest.drop na)
    some ({ role := ← roleOf (← role.toNat?), implicit := impl == "1", alts := alts } :: more)
  | _, _ => none

def parseForm (ws : List String) : Option (String × Rule) :=
  match ws with
  | name :: modes :: space :: pp :: map :: w :: l :: opcode :: ri :: modKind :: modr :: modrm :: immB :: relB :: moff ::
    osz :: a67 :: tuple :: elem :: kmask :: zmask :: er :: sae :: bcst :: immrev :: nops :: rest => do
    let ops ← parseFormOps (← nops.toNat?) rest
    some (name, { modes := ← modes.toNat?, space := ← space.toNat?, pp := ← pp.toNat?, map := ← map.toNat?, w := ← w.toNat?,
                  l := ← l.toNat?, opcode := ← opcode.toNat?, ri := ri == "1", modKind := ← modKind.toNat?, modr := ← modr.toNat?,
                  modrm := ← modrm.toNat?, immBytes := ← immB.toNat?, relBytes := ← relB.toNat?, moff := moff == "1",
                  osz := ← osz.toNat?, a67 := a67 == "1", tuple := ← tuple.toNat?, elem := ← elem.toNat?, kmask := kmask == "1",
                  zmask := zmask == "1", er := er == "1", sae := sae == "1", bcst := bcst == "1", immRev := immrev == "1", ops := ops })
  | _ => none

def parseOperand (s : String) : Option Operand :=
  match s.splitOn ":" with
  | ["R", k, id] => do some (.reg (← RegKind.ofName k) (← id.toNat?))
  | ["I", v] => do some (.imm (BitVec.ofNat 64 (← parseHex? v)))
  | ["L", p] => do some (.label (← p.toNat?))
  | ["M", size, bt, bid, it, iid, shift, off, seg, bcst, aty] => do
    some (.mem { size := ← size.toNat?, baseKind := ← RegKind.ofName bt, baseId := ← bid.toNat?, indexKind := ← RegKind.ofName it,
                 indexId := ← iid.toNat?, shift := ← shift.toNat?, disp := BitVec.ofNat 64 (← parseHex? off), seg := ← seg.toNat?,
                 bcst := ← bcst.toNat?, addrType := ← aty.toNat? })
  | _ => none

def parseDecor (opts k : String) : Option Decor := do
  let os := if opts == "-" then [] else opts.splitOn ","
  let kk ← if k == "-" then some 0 else k.toNat?
  let rc := if os.contains "rd" then 1 else if os.contains "ru" then 2 else if os.contains "rz" then 3 else 0
  some { lock := os.contains "lock", rep := os.contains "rep", repne := os.contains "repne", xacquire := os.contains "xacquire",
         xrelease := os.contains "xrelease", z := os.contains "z", er := os.contains "er", sae := os.contains "sae", rc := rc, k := kk }

def doChk (st : State) (ws : List String) : String :=
  match ws with
  | mode :: base :: off :: name :: opts :: k :: rest =>
    let (opsS, tail) := rest.span (· != "=")
    match tail with
    | ["=", hex] =>
      let r : Option String := do
        let mode64 := mode == "64"
        let base ← if base == "-" then some none else (parseHex? base).map some
        let off ← off.toNat?
        let ops ← opsS.mapM parseOperand
        let d ← parseDecor opts k
        let bytes ← hexToBytes? hex
        let forms := (st.forms.get? name).getD #[]
        match check { mode64 := mode64, base := base, off := off } forms ops d bytes with
        | .ok i => some s!"good {i}"
        | .error e => some ("BAD " ++ e)
      r.getD "bad-op"
    | _ => "bad-op"
  | _ => "bad-op"

def step (st : State) (line : String) : State × String :=
  match words line with
  | "form" :: rest =>
    match parseForm rest with
    | some (name, r) => ({ st with forms := st.forms.insert name (((st.forms.get? name).getD #[]).push r) }, "")
    | none => (st, "bad-form " ++ line)
  | "chk" :: rest => (st, doChk st rest)
  | "enc" :: rest => (st, Model.X86.encLine rest)
  | _ => (st, "bad-op")

def main : IO Unit := do
  let stdin ← IO.getStdin
  let stdout ← IO.getStdout
  lineLoop stdin stdout ({} : State) step

end Driver.C01
