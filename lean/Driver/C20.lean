import AsmjitVerif.Model.Format
import AsmjitVerif.Model.FormatExplain
import AsmjitVerif.Spec.FormatText
import AsmjitVerif.Spec.FormatExplain
import Driver.Common
open AsmjitVerif.Format
open AsmjitVerif.FormatText
namespace Driver.C20

/-! Line protocol of harness/c20.cpp, model side (answers) and monitor side (`mon_*` lines carry the implementation's text). -/

structure St where
  env : Env := { arch := .x64, labels := none, vregs := none }
  inited : Bool := false
  flags : Nat := 0
  indent : Nat := 0
  pad0 : Nat := 0
  pad1 : Nat := 0
  bld : Bool := false
  nodes : List (Node × Option Str × Nat) := []
  pos : Nat := 0

def splitOnChar (c : Char) (s : String) : List String := (s.splitOn (String.singleton c))

def parseId (s : String) : Option Nat :=
  if s.startsWith "v" then (s.drop 1).toNat?.map (· + kVirtIdMin) else s.toNat?

def parseTypedReg (s : String) : Option (Nat × Nat) :=
  match splitOnChar '/' s with
  | [t, i] => do let t ← t.toNat?; let i ← parseId i; if t > 31 then none else some (t, i)
  | _ => none

def parseBase (s : String) : Option MemBase :=
  if s == "-" then some .none
  else if s.startsWith "L" then (s.drop 1).toNat?.map .label
  else (parseTypedReg s).bind fun (t, i) => if t < 2 then none else some (.reg t i)

def parseIndex (s : String) : Option (Option (Nat × Nat)) :=
  if s == "-" then some none else (parseTypedReg s).bind fun (t, i) => if t < 1 then none else some (some (t, i))

/-- `Reg::from_type_and_id` of a RegType without `RegTraits` has signature 0, i.e. it *is* the none operand -/
def noTraits (t : Nat) : Bool := t = 0 ∨ t = 1 ∨ t = 14 ∨ (18 ≤ t ∧ t ≤ 24)

def parseOperand (s : String) : Option Operand :=
  if s == "-" then some .none else
  match splitOnChar '.' s with
  | ["r", t, i] => do
    let t ← t.toNat?; let i ← parseId i
    if t > 31 then none else if noTraits t then some .none else some (.reg t i 0 none)
  | ["r", t, i, et, ei] => do
    let t ← t.toNat?; let i ← parseId i; let et ← et.toNat?
    if t > 31 ∨ et > 7 then none else if noTraits t then some .none else
    if ei == "-" then some (.reg t i et none) else do let ei ← ei.toNat?; if ei > 15 then none else some (.reg t i et (some ei))
  | ["i", v] => do let v ← v.toInt?; some (.imm (toU64 v) 0)
  | ["i", v, p] => do let v ← v.toInt?; let p ← p.toNat?; if p > 15 then none else some (.imm (toU64 v) p)
  | ["l", id] => id.toNat?.map .label
  | ["rl", t, m] => do let t ← t.toNat?; let m ← parseHex? m; if t > 31 then none else some (.regList t m)
  | ["m", size, seg, atp, base, index, shift, off, bc, home] => do
    let size ← size.toNat?; let seg ← seg.toNat?; let atv ← atp.toNat?; let base ← parseBase base; let index ← parseIndex index
    let shift ← shift.toNat?; let off ← off.toInt?; let bc ← bc.toNat?; let home ← home.toNat?
    if size > 255 ∨ seg > 7 ∨ atv > 3 ∨ shift > 3 ∨ bc > 7 ∨ home > 1 then none else
    some (.x86mem { size, seg, addrType := atv, base, index, shift, off, bcast := bc, home := home == 1 })
  | ["am", base, index, sop, shift, off, mode, home] => do
    let base ← parseBase base; let index ← parseIndex index; let sop ← sop.toNat?; let shift ← shift.toNat?
    let off ← off.toInt?; let mode ← mode.toNat?; let home ← home.toNat?
    if sop > 15 ∨ shift > 31 ∨ mode > 3 ∨ home > 1 then none else
    some (.a64mem { base, index, shiftOp := sop, shift, off, mode, home := home == 1 })
  | _ => none

def parseExtra (s : String) : Option ExtraReg :=
  if s == "-" then some { type := 0, group := 0, id := 0 } else
  match parseOperand s with
  | some (.reg t i _ _) =>
    -- register group of the type's signature (RegTraits): only "is it the mask group" matters to the formatter
    if t = 0 then none else some { type := t, group := if t = 16 then rgMask else if t = 11 ∨ t = 12 ∨ t = 13 then 1 else 0, id := i }
  | _ => none

def escape (s : Str) : String :=
  String.ofList (s.flatMap fun c => if c = '\n' then ['\\', 'n'] else if c = '\\' then ['\\', '\\'] else if c = '\x00' then ['\\', '0'] else [c])

def unescape : List Char → Str
  | '\\' :: 'n' :: r => '\n' :: unescape r
  | '\\' :: '\\' :: r => '\\' :: unescape r
  | '\\' :: '0' :: r => '\x00' :: unescape r
  | c :: r => c :: unescape r
  | [] => []

def hexToStr? (s : String) : Option Str := (hexToBytes? s).map fun bs => bs.map fun b => Char.ofNat b.toNat
def hexToNats? (s : String) : Option (List Nat) := (hexToBytes? s).map fun bs => bs.map (·.toNat)

def optComment (s : String) : Option (Option Str) := if s == "-" then some none else (hexToStr? s).map some

/-- everything after the first " =" of a monitor line is the implementation's (escaped) text -/
def splitMon (line : String) : Option (List String × Str) :=
  match line.splitOn " =" with
  | head :: t :: ts => some (words head, unescape (" =".intercalate (t :: ts)).toList)
  | _ => none

def parseNode (ws : List String) : Option (Node × Option Str) :=
  match ws with
  | "inst" :: id :: opts :: extra :: comment :: ops =>
    match id.toNat?, parseHex? opts, parseExtra extra, optComment comment, ops.mapM parseOperand with
    | some id, some opts, some extra, some comment, some ops => some (.inst id opts extra ops, comment)
    | _, _, _, _, _ => none
  | ["label", id] => id.toNat?.map fun i => (.label i, none)
  | ["align", mode, n] => do let m ← mode.toNat?; let n ← n.toNat?; some (.align m n, none)
  | ["embed", size, count, rep] => do let a ← size.toNat?; let b ← count.toNat?; let c ← rep.toNat?; some (.embedData a b c, none)
  | ["comment", t] => (hexToStr? t).map fun t => (.comment t, none)
  | ["elabel", id] => id.toNat?.map fun i => (.embedLabel i, none)
  | ["edelta", id, b] => do let i ← id.toNat?; let b ← b.toNat?; some (.embedLabelDelta i b, none)
  | _ => none

def verdict (b : Bool) (why : String) : String := if b then "good" else "BAD " ++ why

def step (st : St) (line : String) : St × String :=
  let ws := words line
  let bad := (st, "bad-op")
  match ws with
  | ["init", arch, kind] =>
    let a? := match arch with | "x86" => some Arch.x86 | "x64" => some Arch.x64 | "a64" => some Arch.a64 | _ => none
    match a?, kind with
    | some a, "asm" => ({ env := { arch := a, labels := some [], vregs := none }, inited := true : St }, "ok")
    | some a, "comp" => ({ env := { arch := a, labels := some [], vregs := some [] }, inited := true : St }, "ok")
    | some a, "bld" => ({ env := { arch := a, labels := some [], vregs := none }, inited := true, bld := true,
                          nodes := [(.section ".text".toList, none, 0)] : St }, "ok")
    | _, _ => bad
  | ["num", k, v, base, width, fl] =>
    match parseHex? v, base.toNat?, width.toNat?, fl.toNat? with
    | some v, some base, some width, some fl =>
      let fl := if k == "i" then fl ||| sfSigned else fl
      (st, match opNumber v base width fl with | some s => "=" ++ escape s | none => "err InvalidArgument")
    | _, _, _, _ => bad
  | ["hexs", bytes, sep] =>
    match hexToNats? bytes, sep.toNat? with
    | some bs, some sep => (st, "=" ++ escape (appendHex bs (if sep = 0 then none else some (Char.ofNat sep))))
    | _, _ => bad
  | ["fin", text, bin, rel, imm, comment, p0, p1] =>
    match hexToStr? text, rel.toNat?, imm.toNat?, optComment comment, p0.toNat?, p1.toNat? with
    | some text, some rel, some imm, some comment, some p0, some p1 =>
      let bin? : Option (Option (List Nat)) := if bin == "none" then some none else (hexToNats? bin).map some
      match bin? with
      | some b =>
        if (match b with | some bs => decide (rel + imm > bs.length) | none => false) then bad else
        (st, "=" ++ escape (finishFormattedLine text p0 p1 b rel imm comment))
      | none => bad
    | _, _, _, _, _, _ => bad
  | _ =>
  if !st.inited then (st, "err no-init") else
  match ws with
  | ["flags", f] => match parseHex? f with | some f => ({ st with flags := f }, "ok") | none => bad
  | ["logopts", a, b, c] =>
    match a.toNat?, b.toNat?, c.toNat? with
    | some a, some b, some c => ({ st with indent := a, pad0 := b, pad1 := c }, "ok")
    | _, _, _ => bad
  | ["lab", "a"] =>
    let ls := st.env.labels.getD []
    ({ st with env := { st.env with labels := some (ls ++ [{ type := 0, name := [], parent := none }]) } }, s!"ok {ls.length}")
  | ["lab", "n", ty, name, parent] =>
    let ls := st.env.labels.getD []
    match ty.toNat?, (if parent == "-" then some none else parent.toNat?.map some : Option (Option Nat)) with
    | some ty, some parent =>
      ({ st with env := { st.env with labels := some (ls ++ [{ type := ty, name := name.toList, parent := parent }]) } }, s!"ok {ls.length}")
    | _, _ => bad
  | ["bind", _] => (st, "ok")
  | ["vreg", ty, name] =>
    match ty.toNat?, st.env.vregs with
    | some ty, some vs =>
      ({ st with env := { st.env with vregs := some (vs ++ [{ name := if name == "-" then [] else name.toList, regType := ty }]) } }, s!"ok {vs.length} {ty}")
    | _, _ => bad
  | ["reg", t, i] =>
    match t.toNat?, parseId i with
    | some t, some i => (st, "=" ++ escape (formatRegister st.flags st.env t i))
    | _, _ => bad
  | ["op", o] =>
    match parseOperand o with
    | some o => (st, "=" ++ escape (formatOperand st.flags st.env o))
    | none => bad
  | ["pos", n] => (match n.toNat? with | some n => ({ st with pos := n }, "ok") | none => bad)
  | ["nodelist"] => (st, "=" ++ escape (formatNodeList st.flags st.env st.pad0 st.nodes))
  | "node" :: rest =>
    match parseNode rest with
    | some (n, inl) =>
      ({ st with nodes := st.nodes ++ [(n, inl, st.pos)], pos := 0 }, "=" ++ escape (formatNode st.flags st.env st.pad0 n inl st.pos))
    | none => bad
  | "inst" :: id :: opts :: extra :: ops =>
    match id.toNat?, parseHex? opts, parseExtra extra, ops.mapM parseOperand with
    | some id, some opts, some extra, some ops => (st, "=" ++ escape (formatInstructionX st.flags st.env id opts extra ops))
    | _, _, _, _ => bad
  | "logline" :: id :: opts :: extra :: comment :: bytes :: rel :: imm :: ops =>
    match id.toNat?, parseHex? opts, parseExtra extra, optComment comment, hexToNats? bytes, rel.toNat?, imm.toNat?, ops.mapM parseOperand with
    | some id, some opts, some extra, some comment, some bytes, some rel, some imm, some ops =>
      (st, "T " ++ escape (logInstructionEmittedX st.flags st.env st.indent st.pad0 st.pad1 id opts extra ops bytes rel imm comment))
    | _, _, _, _, _, _, _, _ => bad
  | _ =>
  -- monitor lines
  match splitMon line with
  | none => bad
  | some (ws, text) =>
    match ws with
    | ["mon_reg", t, i] =>
      match t.toNat?, parseId i with
      | some t, some i => (st, verdict (monRegister st.env t i text) "register-text-does-not-name-the-register")
      | _, _ => bad
    | ["mon_op", o] =>
      match parseOperand o with
      | some o => (st, verdict (monOperand st.env o text) "operand-text-does-not-denote-the-operand")
      | none => bad
    | "mon_inst" :: id :: opts :: extra :: ops =>
      match id.toNat?, parseHex? opts, parseExtra extra, ops.mapM parseOperand with
      | some id, some opts, some extra, some ops =>
        (st, verdict (monInstruction st.env st.flags id opts extra ops [] text) "instruction-text-does-not-denote-the-instruction")
      | _, _, _, _ => bad
    | ["mon_expl", id, vec, u8] =>
      match id.toNat?, vec.toNat?, u8.toNat? with
      | some id, some vec, some u8 =>
        (st, verdict (monExplain (AsmjitVerif.Gen.FormatTabs.x86InstNames.getD id "") vec u8 text) "immediate-annotation-does-not-denote-the-immediate")
      | _, _, _ => bad
    | "mon_node" :: pos :: rest =>
      match pos.toNat?, parseNode rest with
      | some pos, some (n, inl) => (st, verdict (monNode st.env st.flags n inl text pos) "node-text-does-not-denote-the-node")
      | _, _ => bad
    | "mon_emit" :: id :: opts :: extra :: comment :: bytes :: ops =>
      match id.toNat?, parseHex? opts, parseExtra extra, optComment comment, hexToNats? bytes, ops.mapM parseOperand with
      | some id, some opts, some extra, some comment, some bytes, some ops =>
        (st, verdict (monLogLine st.env st.flags id opts extra ops bytes comment text) "log-line-is-not-a-transcript-of-the-emitted-instruction")
      | _, _, _, _, _, _ => bad
    | _ => bad

def main : IO Unit := do
  lineLoop (← IO.getStdin) (← IO.getStdout) ({} : St) step

end Driver.C20
