/- C13 driver: the name-lookup and x86-validation models and the monitors of Spec/InstName.lean, Spec/X86Agree.lean
   behind the line protocol of harness/c13.cpp (core-only). -/
import Driver.Common
import AsmjitVerif.Model.InstName
import AsmjitVerif.Model.X86Validate
import AsmjitVerif.Spec.InstName
import AsmjitVerif.Spec.X86Agree
import AsmjitVerif.Gen.X86Names
import AsmjitVerif.Gen.A64Names
import AsmjitVerif.Gen.X86DBAliases
import AsmjitVerif.Gen.X86Sig
namespace Driver.C13
open Driver AsmjitVerif AsmjitVerif.InstName AsmjitVerif.X86Validate AsmjitVerif.X86Agree

def bytesOf? (s : String) : Option (List Nat) := (hexToBytes? s).map fun l => l.map (·.toNat)
def hexOf (l : List Nat) : String := if l.isEmpty then "-" else bytesToHex (l.map fun b => BitVec.ofNat 8 b)

def lookup (arch : String) (s : List Nat) : Nat :=
  if arch == "x86" then x86StringToInstId Gen.X86Names.tables Gen.X86Names.aliasTables s
  else a64StringToInstId Gen.A64Names.tables s

def namesOf (arch : String) : List (List Nat) := if arch == "x86" then Gen.X86Names.names else Gen.A64Names.names
def tablesOf (arch : String) : NameTables := if arch == "x86" then Gen.X86Names.tables else Gen.A64Names.tables

/-- the property for an arbitrary string `s` answered with `r`: a known spelling yields an id that carries it, an
    unknown one yields kIdNone -/
def lookupOk (arch : String) (s : List Nat) (r : Nat) : Bool :=
  let names := namesOf arch
  let aliasTargets := if arch == "x86" then (Gen.X86DBAliases.dbAliases.filter (·.1 == s)).map (·.2) else []
  if r == 0 then !(s != [] && names.contains s) && aliasTargets.isEmpty
  else r < names.length && (names.getD r [] == s || aliasTargets.contains (names.getD r []))

def splitColon (s : String) : List String := s.splitOn ":"

def parseOperand (t : String) : Option Operand :=
  match splitColon t with
  | ["n"] => some .none
  | ["l"] => some .label
  | ["i", h] => (parseHex? h).map fun v => .imm (v % 0x10000000000000000)
  | ["r", a, b] => match a.toNat?, b.toNat? with
    | some a, some b => some (.reg a b)
    | _, _ => none
  | ["m", sz, bt, bi, it, ii, sh, off, seg, bc] =>
    match sz.toNat?, bt.toNat?, bi.toNat?, it.toNat?, ii.toNat?, sh.toNat?, off.toInt?, seg.toNat?, bc.toNat? with
    | some sz, some bt, some bi, some it, some ii, some sh, some off, some seg, some bc =>
      some (.mem sz bt bi it ii sh (off % 0x10000000000000000).toNat seg bc)
    | _, _, _, _, _, _, _, _, _ => none
  | _ => none

def parseInst (ws : List String) : Option (Inst × List Operand) :=
  match ws with
  | mode :: id :: opts :: extra :: ops =>
    match mode.toNat?, id.toNat?, parseHex? opts, ops.mapM parseOperand with
    | some mode, some id, some opts, some ops =>
      let ex : Option (Option (Nat × Nat)) :=
        if extra == "-" then some none else
        match splitColon extra with
        | ["r", a, b] => match a.toNat?, b.toNat? with
          | some a, some b => some (some (a, b))
          | _, _ => none
        | _ => none
      match ex with
      | some ex =>
        if (mode == 32 || mode == 64) && ops.length ≤ 6 then
          some ({ mode := if mode == 32 then 1 else 2, id := id, options := opts, extra := ex }, ops)
        else none
      | none => none
    | _, _, _, _ => none
  | _ => none

def parseEmit (s : String) (pfx : String) : Option (String × String) :=
  if s.startsWith pfx then
    match (s.drop pfx.length).toString.splitOn ":" with
    | [e, b] => some (e, b)
    | _ => none
  else none

def step (_ : Unit) (line : String) : Unit × String :=
  let ws := words line
  ((), match ws with
  | ["s2i", arch, h] =>
    match bytesOf? h with
    | some s => toString (lookup arch s)
    | none => "bad-op"
  | ["i2s", arch, id, o] =>
    match id.toNat?, o.toNat? with
    | some id, some o =>
      match instIdToString (tablesOf arch) (if arch == "x86" then none else some 0xFFFF) id (o == 1) with
      | some n => "ok " ++ hexOf n
      | none => "err InvalidInstruction"
    | _, _ => "bad-op"
  | "val" :: rest | "inst" :: rest =>
    match parseInst rest with
    | some (inst, ops) => "v=" ++ (validate Gen.X86Sig.tables inst ops).name
    | none => "bad-op"
  -- monitors -------------------------------------------------------------------------------------
  | ["mon_rt", arch, id, r] =>
    match id.toNat?, r.toNat? with
    | some id, some r =>
      if roundTripOk (namesOf arch) id r then "good"
      else if !spanOk (tablesOf arch) (posNames (tablesOf arch) (namesOf arch)) (letterOf (namesOf arch) id) then "BAD unsorted-span"
      else "BAD name-round-trip"
    | _, _ => "bad-op"
  | ["mon_dbname", h] =>
    -- the printed name of an x86 instruction is an instruction name of the ISA database
    match bytesOf? h with
    | some s => if Gen.X86DBAliases.dbNames.contains s then "good" else "BAD printed-name-not-in-database"
    | none => "bad-op"
  | ["mon_lookup", arch, h, r] =>
    match bytesOf? h, r.toNat? with
    | some s, some r =>
      if lookupOk arch s r then "good"
      else if r == 0 && !spanOk (tablesOf arch) (posNames (tablesOf arch) (namesOf arch)) (match s with | c :: _ => c - 97 | [] => 26) then "BAD unsorted-span"
      else "BAD lookup"
    | _, _ => "bad-op"
  | ["mon_a64", e0, e1] =>
    match parseEmit e0 "e0=", parseEmit e1 "e1=" with
    | some a, some b => (match violationA64 a b with | none => "good" | some c => "BAD " ++ c)
    | _, _ => "bad-op"
  | ["mon_inst", exp, v, e0, e1] =>
    let ex : Option Expect := if exp == "allow" then some .allow else if exp == "exclude" then some .exclude
                              else if exp == "any" then some .any else if exp == "deco" then some .decoExcluded else if exp == "regx" then some .regExcluded else none
    match ex, parseEmit v "v=", parseEmit e0 "e0=", parseEmit e1 "e1=" with
    | some ex, _, some e0, some e1 =>
      if !v.startsWith "v=" then "bad-op" else
      match violation ex { v := (v.drop 2).toString, e0 := e0, e1 := e1 } with
      | none => "good"
      | some c => "BAD " ++ c
    | _, _, _, _ => "bad-op"
  | _ => "bad-op")

def main : IO Unit := do
  lineLoop (← IO.getStdin) (← IO.getStdout) () step

end Driver.C13
