/-
Line-protocol driver for the CodeHolder model (C03 label references, C04 relocation).

model mode   : `init <x86|x64|a64> <base hex | ->` starts a program; every op line is answered
               `<Err> <size of current section> <unresolved count>` (+ ` <reduction>` for relocate);
               `dump` prints layout, bytes and label table;
               `jitadd <rx hex> [<rw hex>]` = JitRuntime::add with the span at rx (writable view at rw):
               `<Err> <size> <count> <rx> <code size> <image hex> rw=<rw> base=<base>`,
               `jitrelease` -> `<Err> <size> <count> live=0`;
               `newnamed <name>` / `byname <name>` (named labels; `-` = empty name, `@n` = n letters) -> `<Err> <size> <count>` / `id=<n>|invalid`.
monitor mode : `moninit <arch> <base|->`, `mon <Err> <size> <count> | <op words>` (implementation's answer + op; no output),
               `mondump <dump line of the implementation>` -> `good` / `BAD <why>` (Spec/RefSemantics.judge).
-/
import AsmjitVerif.Model.Prog
import AsmjitVerif.Model.JitAdd
import AsmjitVerif.Model.Named
import AsmjitVerif.Spec.RefSemantics
import Driver.Common
open AsmjitVerif.Offset
open AsmjitVerif.CodeHolder
open AsmjitVerif.RefSpec
namespace Driver.C03

def parseArch : String → Option Arch
  | "x86" => some .x86 | "x64" => some .x64 | "a64" => some .a64 | _ => none

def parseJ : String → Option JKind
  | "jmp" => some .jmp | "jz" => some .jz | "call" => some .call | "jecxz" => some .jecxz | "loop" => some .loop | _ => none
def parseM : String → Option MKind
  | "lea" => some .lea | "mov" => some .mov | "addi8" => some .addi8 | "movi32" => some .movi32 | "cmpi16" => some .cmpi16
  | "ldeax" => some .ldeax | "steax" => some .steax | "ldrax" => some .ldrax
  | "fsmov" => some .fsmov | "gsldeax" => some .gsldeax | "fsaddi8" => some .fsaddi8 | _ => none
def parseA : String → Option AKind
  | "b" => some .b | "bl" => some .bl | "bcond" => some .bcond | "cbz" => some .cbz | "tbz" => some .tbz
  | "adr" => some .adr | "adrp" => some .adrp | "ldr" => some .ldr | "bc" => some .bc | _ => none
def parseOpt : String → Option FormOpt
  | "d" => some .dflt | "s" => some .short | "l" => some .long | _ => none

def bv64? (s : String) : Option (BitVec 64) := (parseHex? s).map (BitVec.ofNat 64)

def parseOp : List String → Option Op
  | ["newlabel"] => some .newLabel
  | ["newsection", a, o] => do some (.newSection (← a.toNat?) (← o.toInt?))
  | ["section", i] => do some (.section (← i.toNat?))
  | ["bind", l] => do some (.bind (← l.toNat?))
  | ["align", n] => do some (.align (← n.toNat?))
  | ["embed", h] => do some (.embed (← hexToBytes? h))
  | ["zeros", n] => do some (.embed (zeros (← n.toNat?)))
  | ["jmp", k, o, l] => do some (.jmp (← parseJ k) (← parseOpt o) (← l.toNat?))
  | ["mem", k, l, d] => do some (.mem (← parseM k) (← l.toNat?) (BitVec.ofNat 32 (← parseHex? d)))
  | ["a64", k, l, a] => do some (.a64 (← parseA k) (← l.toNat?) (← bv64? a))
  | ["elabel", l, n] => do some (.elabel (← l.toNat?) (← n.toNat?))
  | ["edelta", l, b, n] => do some (.edelta (← l.toNat?) (← b.toNat?) (← n.toNat?))
  | ["vsize", i, v] => do some (.vsize (← i.toNat?) (← bv64? v))
  | ["flatten"] => some .flatten
  | ["resolve"] => some .resolve
  | ["relocate", b] => do some (.relocate (← bv64? b))
  | ["jmpabs", k, o, t] => do some (.jmpAbs (← parseJ k) (← parseOpt o) (← bv64? t))
  | ["a64abs", k, t] => do some (.a64Abs (← parseA k) (← bv64? t))
  | ["memabs", k, a, t] => do
    let at_ ← (match a with | "d" => some AddrT.dflt | "a" => some AddrT.abs | "r" => some AddrT.rel | _ => none)
    some (.memAbs (← parseM k) at_ (← bv64? t))
  | _ => none

def parseErr (s : String) : Option Err :=
  [Err.ok, .invalidArgument, .invalidState, .tooLarge, .invalidLabel, .labelAlreadyBound, .invalidSection,
   .invalidRelocEntry, .relocOffsetOutOfRange, .invalidInstruction, .invalidAddress, .invalidDisplacement,
   .invalidOperandSize, .expressionLabelNotBound, .invalidAddress64Bit].find? (fun e => e.name == s)

def dumpLine (s : State) : String :=
  let secs := s.secs.map fun sec =>
    s!" S {toHex sec.offset.toNat} {toHex sec.virtSize.toNat} {if sec.buf.isEmpty then "-" else bytesToHex sec.buf}"
  let labs := s.labels.map fun
    | .unbound _ => " L u"
    | .bound sec off => s!" L {sec}:{toHex off.toNat}"
  s!"dump cnt={s.count}" ++ String.join secs ++ String.join labs

/-- parse the `S off virt buf` groups of a dump line -/
def parseDump (ws : List String) : Option Dump :=
  match ws with
  | "dump" :: cnt :: rest => do
    let c ← (cnt.drop 4).toString.toNat?
    let rec go (ws : List String) (acc : List DumpSec) (fuel : Nat) : Option (List DumpSec) :=
      match fuel, ws with
      | 0, _ => none
      | _, [] => some acc.reverse
      | fuel + 1, "S" :: o :: v :: b :: rest =>
        match bv64? o, bv64? v, hexToBytes? b with
        | some o, some v, some b => go rest ({ offset := o, virt := v, buf := b } :: acc) fuel
        | _, _, _ => none
      | fuel + 1, "L" :: _ :: rest => go rest acc fuel
      | _, _ => none
    let secs ← go rest [] (rest.length + 1)
    some { secs := secs, count := c }
  | _ => none

structure DS where
  model : State
  ghost : Ghost
  added : Bool := false     -- a successful `jitadd` not yet released
  names : List (String × Nat) := []   -- named labels (Model/Named.lean)
  deriving Inhabited

def decodeName (w : String) : String :=
  if w == "-" then "" else if w.startsWith "@" then String.mk (List.replicate ((w.drop 1).toString.toNat?.getD 0) 'a') else w

def answer (s : State) (e : Err) : String := s!"{e.name} {s.curOff} {s.count}"

def stepLine (st : DS) (line : String) : DS × String :=
  let ws := words line
  match ws with
  | ["init", a, b] =>
    match parseArch a with
    | some arch =>
      let base := if b == "-" then noBase else (bv64? b).getD noBase
      ({ st with model := State.init arch base, names := [], added := false }, "Ok 0 0")
    | none => (st, "bad-op")
  | ["dump"] => (st, dumpLine st.model)
  | ["moninit", a, b] =>
    match parseArch a with
    | some arch => ({ st with ghost := { arch := arch, initBase := if b == "-" then none else bv64? b } }, "")
    | none => (st, "bad-op")
  | "mon" :: e :: n :: _c :: "|" :: opws =>
    match parseErr e, n.toNat?, parseOp opws with
    | some e, some n, some op => ({ st with ghost := ghostStep st.ghost op e n }, "")
    | _, _, _ => (st, "bad-mon")
  | "mondump" :: rest =>
    match parseDump ("dump" :: rest) with
    | some d =>
      match judge st.ghost d with
      | .bad why => (st, "BAD " ++ why)
      | _ => (st, "good")
    | none => (st, "bad-dump")
  | ["monsite", "x86rel", at_, tgt, bytes] =>
    -- a single branch instruction at offset `at_` whose label is at `tgt` (witness runs on buffers too large to dump)
    match bv64? at_, bv64? tgt, hexToBytes? bytes with
    | some a, some t, some buf =>
      match x86BranchField buf 0 with
      | some (fp, n) =>
        match loadLE buf fp n with
        | some v =>
          if fp + n = buf.length ∧ a + BitVec.ofNat 64 buf.length + sextN n v == t then (st, "good")
          else (st, "BAD direct-branch-wrong-target")
        | none => (st, "BAD branch-out-of-buffer")
      | none => (st, "BAD not-a-branch-opcode")
    | _, _, _ => (st, "bad-op")
  | ["monsite", "a64", k, at_, tgt, bytes] =>
    match parseA k, bv64? at_, bv64? tgt, hexToBytes? bytes with
    | some k, some a, some t, some buf =>
      match loadLE buf 0 4 with
      | some v => if a + decode32 k.kind.fmt (BitVec.ofNat 32 v) == t then (st, "good") else (st, "BAD direct-branch-wrong-target")
      | none => (st, "BAD branch-out-of-buffer")
    | _, _, _, _ => (st, "bad-op")
  | ["newnamed", nm] =>
    -- `new_named_label_id(name, kGlobal)`; `-` = the empty name, `@n` = a name of n letters
    let (n', e) := newNamed { st := st.model, names := st.names } (decodeName nm)
    ({ st with model := n'.st, names := n'.names }, s!"{e.name} {n'.st.curOff} {n'.st.count}")
  | ["byname", nm] =>
    match labelByName st.names (decodeName nm) with
    | some id => (st, s!"id={id}")
    | none => (st, "id=invalid")
  | "jitadd" :: b :: rest =>
    -- `JitRuntime::add`; the span (executable address rx, writable address rw: equal unless the allocator is dual-mapped) is the
    -- one the real allocator returned (given by the check script). Answer: what a fetch through rx sees, and the base address.
    match bv64? b, (match rest with | [w] => bv64? w | _ => bv64? b) with
    | some rx, some rw =>
      let (s', r, sp) := jitAddVia st.model { rx := rx, rw := rw, mem := [] }
      match r, sp.bind (fun sp => sp.fetch rx) with
      | .ok _, some img => ({ st with model := s', added := true },
                    answer s' .ok ++ s!" {toHex rx.toNat} {img.length} {if img.isEmpty then "-" else bytesToHex img} rw={toHex rw.toNat} base={toHex s'.base.toNat}")
      | .ok _, none => ({ st with model := s', added := false }, "span-not-written")
      | .noCode, _ => ({ st with model := s', added := false }, s!"NoCodeGenerated {s'.curOff} {s'.count}")
      | .failed e, _ => ({ st with model := s', added := false }, answer s' e)
    | _, _ => (st, "bad-op")
  | ["jitrelease"] =>
    -- `JitRuntime::release`: kInvalidArgument for the null pointer a failed add left; nothing stays allocated
    ({ st with added := false }, answer st.model (if st.added then .ok else .invalidArgument) ++ " live=0")
  | ("relocate" :: _) =>
    match parseOp ws with
    | some (.relocate b) =>
      let r := relocate st.model b
      ({ st with model := r.1 }, answer r.1 r.2.1 ++ s!" {r.2.2}")
    | _ => (st, "bad-op")
  | _ =>
    match parseOp ws with
    | some op =>
      let (s', e) := step st.model op
      ({ st with model := s' }, answer s' e)
    | none => (st, "bad-op")

def main : IO Unit := do
  lineLoop (← IO.getStdin) (← IO.getStdout) ({ model := State.init .x64 noBase, ghost := { arch := .x64 } } : DS) stepLine

end Driver.C03
