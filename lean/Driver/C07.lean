import AsmjitVerif.Model.Frame
import AsmjitVerif.Model.RAStack
import AsmjitVerif.Spec.FrameSpec
import Driver.Common
open AsmjitVerif.Frame
namespace Driver.C07

/-! Line protocol of C07 (the same lines go to harness/c07.cpp):

  frame <arch 0|1|2> <cc> <win 0|1> <argStack> <attrs hex> <used0..3 hex> <ovr> <upd 0|1> <lsz> <lal> <csz> <cal> <sareg>
      -> ok <28 frame fields> | <prolog> | <epilog>          (or  err <Name>)
  mon <fields> | <prolog> | <epilog>                         (the implementation's answer)
      -> good | refused | BAD <reason>
-/

def archOf : Nat → Option Arch
  | 0 => some .x86 | 1 => some .x64 | 2 => some .a64 | _ => none
def archCode : Arch → Nat
  | .x86 => 0 | .x64 => 1 | .a64 => 2

def fieldsText (f : Frame) : String :=
  let l : List Nat := [archCode f.arch, f.attrs, f.spRegId, f.saRegId, f.redZone, f.spillZone, f.natAlign, f.minDynAlign,
    f.callAlign, f.localAlign, f.finalAlign, f.calleeCleanup, f.callSize, f.localSize, f.finalSize, f.localOff,
    f.daOff, f.saOffSp, f.saOffSa, f.stackAdj, f.ppSize, f.xSize, f.ppOff, f.xOff]
    ++ (List.range 4).map f.dirty ++ (List.range 4).map f.preserved
    ++ (List.range 4).map f.srSize ++ (List.range 4).map f.srAlign
  " ".intercalate (l.map toString)

def parseFields (ws : List String) : Option Frame := do
  let ns ← ws.mapM String.toNat?
  if ns.length ≠ 40 then none
  let g (i : Nat) : Nat := ns.getD i 0
  let arch ← archOf (g 0)
  let t (b : Nat) : Nat → Nat := fun k => if k < 4 then g (b + k) else 0
  some { arch := arch, attrs := g 1, spRegId := g 2, saRegId := g 3, redZone := g 4, spillZone := g 5, natAlign := g 6,
         minDynAlign := g 7, callAlign := g 8, localAlign := g 9, finalAlign := g 10, calleeCleanup := g 11,
         callSize := g 12, localSize := g 13, finalSize := g 14, localOff := g 15, daOff := g 16, saOffSp := g 17,
         saOffSa := g 18, stackAdj := g 19, ppSize := g 20, xSize := g 21, ppOff := g 22, xOff := g 23,
         dirty := t 24, preserved := t 28, srSize := t 32, srAlign := t 36 }

/-! ### parsing the canonical instruction text -/

inductive Opd where
  | reg (g id sz : Nat)
  | mem (b : Nat) (off : Int) (mode : MemMode)
  | imm (v : Int)

def grpOfLetter : Char → Option Nat
  | 'r' => some 0 | 'v' => some 1 | 'k' => some 2 | 'm' => some 3 | _ => none

def parseSigned (s : String) : Option Int :=
  if s.startsWith "+" then (s.drop 1).toString.toNat?.map Int.ofNat
  else if s.startsWith "-" then (s.drop 1).toString.toNat?.map fun n => -(Int.ofNat n)
  else s.toNat?.map Int.ofNat

def parseOpd (s : String) : Option Opd :=
  if s.startsWith "#" then (parseSigned (s.drop 1).toString).map Opd.imm
  else if s.startsWith "[r" then
    -- [rB+off] | [rB+off]! | [rB]+off
    match (s.drop 2).toString.splitOn "]" with
    | [inner, tail] =>
      let (bs, offs) := (inner.toList.span Char.isDigit)
      match (String.ofList bs).toNat? with
      | none => none
      | some b =>
        if tail = "" then (parseSigned (String.ofList offs)).map fun o => Opd.mem b o .fixed
        else if tail = "!" then (parseSigned (String.ofList offs)).map fun o => Opd.mem b o .pre
        else if offs.isEmpty then (parseSigned tail).map fun o => Opd.mem b o .post
        else none
    | _ => none
  else
    match s.toList with
    | c :: rest =>
      match grpOfLetter c, (String.ofList rest).splitOn ":" with
      | some g, [ids, szs] =>
        match ids.toNat?, szs.toNat? with
        | some id, some sz => some (Opd.reg g id sz)
        | _, _ => none
      | _, _ => none
    | [] => none

def xmnOf : String → Option XMn
  | "movaps" => some .movaps | "movups" => some .movups | "vmovaps" => some .vmovaps | "vmovups" => some .vmovups
  | "kmovq" => some .kmovq | "movq" => some .movq | _ => none

def parseInstr (a : Arch) (s : String) : Option Instr :=
  let s := s.trimAscii.toString
  match s.splitOn " " with
  | [] => none
  | mn :: rest =>
    let opsText := "".intercalate rest
    let ops? : Option (List Opd) := if opsText = "" then some [] else (opsText.splitOn ",").mapM parseOpd
    if mn = "endbr32" ∨ mn = "endbr64" ∨ mn = "bti" ∨ mn = "emms" ∨ mn = "vzeroupper" then some (Instr.nop s) else
    match ops? with
    | none => none
    | some ops =>
      let W := a.W
      match mn, ops with
      | "push", [.reg 0 r sz] => if sz = W then some (.push r) else none
      | "pop", [.reg 0 r sz] => if sz = W then some (.pop r) else none
      | "mov", [.reg 0 d sz, .reg 0 r sz'] => if sz = W ∧ sz' = W then some (.mov d r) else none
      | "mov", [.mem b off .fixed, .reg 0 r sz] => if sz = W then some (.stGp b off r) else none
      | "mov", [.reg 0 d sz, .mem b off .fixed] => if sz = W then some (.ldGp d b off) else none
      | "and", [.reg 0 r sz, .imm v] => if sz = W then some (.andImm r v) else none
      | "and", [.reg 0 d sz, .reg 0 r sz', .imm v] => if sz = W ∧ sz' = W ∧ a.isA64 then some (.and3 d r v) else none
      | "sub", [.reg 0 r sz, .imm v] => if sz = W ∧ !a.isA64 then some (.sub r v) else none
      | "add", [.reg 0 r sz, .imm v] => if sz = W ∧ !a.isA64 then some (.add r v) else none
      | "sub", [.reg 0 d sz, .reg 0 r _, .imm v] => if sz = W ∧ d = r ∧ a.isA64 then some (.sub r v) else none
      | "add", [.reg 0 d sz, .reg 0 r _, .imm v] => if sz = W ∧ d = r ∧ a.isA64 then some (.add r v) else none
      | "lea", [.reg 0 d sz, .mem b off .fixed] => if sz = W then some (.lea d b off) else none
      | "stp", [.reg g r1 sz, .reg g' r2 sz', .mem b off mode] =>
        if g = g' ∧ sz = sz' then some (.stp g sz r1 (some r2) b off mode) else none
      | "str", [.reg g r1 sz, .mem b off mode] => some (.stp g sz r1 none b off mode)
      | "ldp", [.reg g r1 sz, .reg g' r2 sz', .mem b off mode] =>
        if g = g' ∧ sz = sz' then some (.ldp g sz r1 (some r2) b off mode) else none
      | "ldr", [.reg g r1 sz, .mem b off mode] => some (.ldp g sz r1 none b off mode)
      | "ret", [] => some (.ret 0)
      | "ret", [.imm v] => if 0 ≤ v then some (.ret v.toNat) else none
      | "ret", [.reg 0 r _] => some (.retReg r)
      | _, [.mem b off .fixed, .reg g id sz] =>
        match xmnOf mn with
        | some x => if x.group = g ∧ x.opSize = sz then some (.stX x b off id) else none
        | none => none
      | _, [.reg g id sz, .mem b off .fixed] =>
        match xmnOf mn with
        | some x => if x.group = g ∧ x.opSize = sz then some (.ldX x id b off) else none
        | none => none
      | _, _ => none

def parseProg (a : Arch) (s : String) : Option (List Instr) :=
  let s := s.trimAscii.toString
  if s = "-" then some [] else (s.splitOn ";").mapM (parseInstr a)

/-! ### model side of `frame` -/

def hexNat? (s : String) : Option Nat := parseHex? s

def parseOvr (s : String) : Option (Option (List Nat)) :=
  if s = "-" then some none else do
    let ps := s.splitOn ","
    if ps.length ≠ 12 then none
    let masks ← (ps.take 4).mapM hexNat?
    let rest ← (ps.drop 4).mapM String.toNat?
    some (some (masks ++ rest))

def progOut (a : Arch) : Option (List Instr) → String
  | some p => progText a p
  | none => "!InvalidState"

def frameOp (ws : List String) : String :=
  match ws with
  | [arch, cc, win, argStack, attrs, u0, u1, u2, u3, ovr, upd, lsz, lal, csz, cal, sareg] =>
    match arch.toNat? >>= archOf, cc.toNat?, win.toNat?, argStack.toNat?, hexNat? attrs,
          [u0, u1, u2, u3].mapM hexNat?, parseOvr ovr,
          [upd, lsz, lal, csz, cal, sareg].mapM String.toNat? with
    | some a, some cc, some win, some argStack, some attrs, some us, some ovr, some [upd, lsz, lal, csz, cal, sareg] =>
      match initCallConv a cc (win != 0) with
      | none => "err InvalidArgument"
      | some ci =>
        let used : Nat → Nat := fun g => if g < 4 then us.getD g 0 else 0
        let f := Frame.init ci used argStack
        let f := { f with attrs := u32 (f.attrs ||| attrs) }
        let f := match ovr with
          | none => f
          | some l =>
            let t (b : Nat) : Nat → Nat := fun k => if k < 4 then l.getD (b + k) 0 else 0
            { f with preserved := t 0, srSize := fun k => u8 (t 4 k), srAlign := fun k => u8 (t 8 k) }
        let f := if upd = 0 then
            (((f.setLocalSize lsz).setLocalAlign lal).setCallSize csz).setCallAlign cal
          else
            ((((((((f.updateLocalSize lsz).updateLocalSize (lsz / 2)).updateLocalAlign lal).updateLocalAlign (lal / 2)).updateCallSize csz).updateCallSize (csz / 2)).updateCallAlign cal).updateCallAlign (cal / 2))
        let f := if sareg ≠ 255 then { f with saRegId := u8 sareg } else f
        let f := f.finalize
        "ok " ++ fieldsText f ++ " | " ++ progOut a (prolog f) ++ " | " ++ progOut a (epilog f)
    | _, _, _, _, _, _, _, _ => "bad-op"
  | _ => "bad-op"

/-! ### `seq`: a convention (optionally with custom preserved masks), `init`, then any sequence of public-API operations -/

def parseOp (t : String) : Option FrameOp :=
  match t.splitOn ":" with
  | ["sls", v] => v.toNat?.map .setLocalSize
  | ["sla", v] => v.toNat?.map .setLocalAlign
  | ["scs", v] => v.toNat?.map .setCallSize
  | ["sca", v] => v.toNat?.map .setCallAlign
  | ["uls", v] => v.toNat?.map .updLocalSize
  | ["ula", v] => v.toNat?.map .updLocalAlign
  | ["ucs", v] => v.toNat?.map .updCallSize
  | ["uca", v] => v.toNat?.map .updCallAlign
  | ["aat", v] => (hexNat? v).map .addAttrs
  | ["cat", v] => (hexNat? v).map .clearAttrs
  | ["sd", g, m] => do some (.setDirty (← g.toNat?) (← hexNat? m))
  | ["ad", g, m] => do some (.addDirty (← g.toNat?) (← hexNat? m))
  | ["sad"] => some .setAllDirty
  | ["ssa", r] => r.toNat?.map .setSaReg
  | ["rsa"] => some .resetSaReg
  | ["rrz"] => some .resetRedZone
  | ["uffr", d0, d1, d2, d3, sa, ok] => do
    let sa ← if sa = "-" then some none else sa.toNat?.map some
    some (.updateFuncFrame (← hexNat? d0) (← hexNat? d1) (← hexNat? d2) (← hexNat? d3) sa (ok = "1"))
  | _ => none

def seqOp (ws : List String) : String :=
  match ws with
  | [arch, cc, win, argStack, u0, u1, u2, u3, pm, ops] =>
    match arch.toNat? >>= archOf, cc.toNat?, win.toNat?, argStack.toNat?, [u0, u1, u2, u3].mapM hexNat?,
          (if pm = "-" then some none else ((pm.splitOn ",").mapM hexNat?).map some),
          (if ops = "-" then some [] else (ops.splitOn ",").mapM parseOp) with
    | some a, some cc, some win, some argStack, some us, some pm, some ops =>
      match initCallConv a cc (win != 0) with
      | none => "err InvalidArgument"
      | some ci =>
        let ci := match pm with
          | some l => if l.length = 4 then ci.withPreserved (fun g => l.getD g 0) else ci
          | none => ci
        let used : Nat → Nat := fun g => if g < 4 then us.getD g 0 else 0
        let f := ((Frame.init ci used argStack).applyAll ops).finalize
        "ok " ++ fieldsText f ++ " | " ++ progOut a (prolog f) ++ " | " ++ progOut a (epilog f)
    | _, _, _, _, _, _, _ => "bad-op"
  | _ => "bad-op"

def monOp (rest : String) : String :=
  match rest.splitOn " | " with
  | [fields, pro, epi] =>
    match parseFields (words fields) with
    | none => "bad-op"
    | some f =>
      if pro.startsWith "!" ∨ epi.startsWith "!" then "refused" else
      match parseProg f.arch pro, parseProg f.arch epi with
      | some p, some e =>
        match monitor f p e with
        | none => "good"
        | some r => "BAD " ++ r
      | none, _ => "BAD unknown-instruction-in-prolog"
      | _, none => "BAD unknown-instruction-in-epilog"
  | _ => "bad-op"

/-! ### `RAStackAllocator`

  rasm <size:align:flags:use,...> | <ids in the order the implementation's sort produced>
      -> ok <alignment> <stack_size> <id:weight:offset ...>           (the model's placement in that order)
  rasmon <slots> | <alignment> <stack_size> <id:weight:offset ...>   (the implementation's answer)
      -> good | BAD <reason>
-/

def parseSlots (t : String) : Option (List RASlot × Nat) :=
  if t = "-" then some ([], 1) else
  (t.splitOn ",").foldlM (fun (acc : List RASlot × Nat) x =>
    match (x.splitOn ":").mapM String.toNat? with
    | some [size, align, flags, use] =>
      let (sl, al) := newSlot acc.2 size align flags
      some (acc.1 ++ [{ sl with useCount := u32 use }], al)
    | _ => none) ([], 1)

def rasmOp (rest : String) : String :=
  match rest.splitOn " | " with
  | [slots, order] =>
    match parseSlots slots.trimAscii.toString, ((words order).filter (· ≠ "-")).mapM String.toNat? with
    | some (ss, al), some ids =>
      if !(ids.length == ss.length && (List.range ss.length).all ids.contains) then "BAD order-not-a-permutation" else
      let sorted := ids.map fun i => ss.getD i default
      let (out, stackSize) := calculate al sorted
      "ok " ++ toString al ++ " " ++ toString stackSize ++
        String.join ((ids.zip out).map fun (i, s) => " " ++ toString i ++ ":" ++ toString s.weight ++ ":" ++ toString s.offset)
    | _, _ => "bad-op"
  | _ => "bad-op"

/-- the property of the slot layout, judged on the implementation's numbers -/
def slotsMonitor (ss : List RASlot) (al stackSize : Nat) (placed : List (Nat × Nat)) : Option String :=
  let ids := placed.map Prod.fst
  if !(ids.length == ss.length && (List.range ss.length).all ids.contains) then some "order-not-a-permutation" else
  let real : List (RASlot × Nat) := placed.filterMap fun (i, off) =>
    let s := ss.getD i default
    if s.isStackArg then none else some (s, off)
  if !(al != 0 && stackSize % al == 0) then some "stack-size-not-aligned" else
  if !(real.all fun (s, off) => s.align != 0 && off % s.align == 0) then some "slot-misaligned" else
  if !(real.all fun (s, off) => decide (off + s.size ≤ stackSize)) then some "slot-outside-stack" else
  if !((List.range real.length).all fun i => (List.range real.length).all fun j =>
        i == j || (let a : RASlot × Nat := real.getD i default
                   let b : RASlot × Nat := real.getD j default
                   decide (a.2 + a.1.size ≤ b.2) || decide (b.2 + b.1.size ≤ a.2))) then some "slots-overlap" else
  if !(real.all fun (s, _) => decide (s.align ≤ al)) then some "allocator-alignment-too-small" else
  none

def rasmonOp (rest : String) : String :=
  match rest.splitOn " | " with
  | [slots, ans] =>
    match parseSlots slots.trimAscii.toString, words ans with
    | some (ss, _), al :: sz :: placed =>
      match al.toNat?, sz.toNat?, placed.mapM (fun t => match (t.splitOn ":").mapM String.toNat? with
                                                  | some [i, _, off] => some (i, off) | _ => none) with
      | some al, some sz, some pl =>
        match slotsMonitor ss al sz pl with
        | none => "good"
        | some r => "BAD " ++ r
      | _, _, _ => "bad-op"
    | _, _ => "bad-op"
  | _ => "bad-op"

/-- civmon <call size> <local offset> <local size> | <off:size ...>  (what the real Compiler function did before its call) -/
def civmonOp (rest : String) : String :=
  match rest.splitOn " | " with
  | [nums, st] =>
    match (words nums).mapM String.toNat?, ((words st).filter (· ≠ "-")).mapM (fun t => match t.splitOn ":" with
        | [o, z] => match o.toInt?, z.toNat? with
          | some o, some z => some (o, z)
          | _, _ => none
        | _ => none) with
    | some [css, lso, lss], some stores =>
      match callAreaMonitor css lso lss stores with
      | none => "good"
      | some r => "BAD " ++ r
    | _, _ => "bad-op"
  | _ => "bad-op"

def step (_ : Unit) (line : String) : Unit × String :=
  if line.startsWith "mon " then ((), monOp (line.drop 4).toString)
  else if line.startsWith "civmon " then ((), civmonOp (line.drop 7).toString)
  else if line.startsWith "rasm " then ((), rasmOp (line.drop 5).toString)
  else if line.startsWith "rasmon " then ((), rasmonOp (line.drop 7).toString)
  else match words line with
    | "frame" :: rest => ((), frameOp rest)
    | "seq" :: rest => ((), seqOp rest)
    | _ => ((), "bad-op")

def main : IO Unit := do
  lineLoop (← IO.getStdin) (← IO.getStdout) () step

end Driver.C07
