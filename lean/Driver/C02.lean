import Std.Data.HashMap
import AsmjitVerif.Model.A64Operand
import AsmjitVerif.Model.A64AsmConv
import AsmjitVerif.Spec.A64Decode
import AsmjitVerif.Gen.A64DB
import AsmjitVerif.Gen.A64Tables
import Driver.Common
open AsmjitVerif.A64
open AsmjitVerif.A64Spec
namespace Driver.C02

/-! line protocol of harness/c02.cpp -/

def natList? (s : String) : Option (List Nat) := (s.splitOn ".").mapM (·.toNat?)

def parseOperand (t : String) : Option Operand :=
  if t == "-" then some .none
  else if t == "l" then some .label
  else if t.startsWith "ml" then (parseHex? (t.drop 2).toString).map fun v => .memLabel (BitVec.ofNat 64 v)
  else
    let body := (t.drop 1).toString
    match t.front with
    | 'r' =>
      match natList? body with
      | some [rt, id] => some (.reg { rt := rt, id := id })
      | some [rt, id, et] => some (.reg { rt := rt, id := id, et := et })
      | some [rt, id, et, idx] => some (.reg { rt := rt, id := id, et := et, hasIdx := true, idx := idx })
      | _ => none
    | 'i' =>
      match body.splitOn "." with
      | [v] => (parseHex? v).map fun v => .imm (BitVec.ofNat 64 v) 0
      | [v, p] => do let v ← parseHex? v; let p ← p.toNat?; some (.imm (BitVec.ofNat 64 v) p)
      | _ => none
    | 'f' => (parseHex? body).map fun v => .fimm (BitVec.ofNat 64 v)
    | 'a' => (parseHex? body).map fun v => .abs (BitVec.ofNat 64 v)
    | 'm' =>
      match body.splitOn "." with
      | [bt, bid, it, iid, sop, sh, mode, off] => do
        let bt ← bt.toNat?; let bid ← bid.toNat?; let it ← it.toNat?; let iid ← iid.toNat?
        let sop ← sop.toNat?; let sh ← sh.toNat?; let mode ← mode.toNat?; let off ← parseHex? off
        some (.mem { baseType := bt, baseId := bid, indexType := it, indexId := if it == 0 then 0 else iid,
                     shiftOp := sop, shift := sh, mode := mode, off := BitVec.ofNat 32 off })
      | _ => none
    | _ => none

def parseRequest (ws : List String) : Option Request :=
  match ws with
  | pos :: inst :: cc :: ops => do
    let pos ← pos.toNat?; let inst ← inst.toNat?; let cc ← cc.toNat?
    let ops ← ops.mapM parseOperand
    some { pos := pos, inst := inst, cc := cc, ops := ops }
  | _ => none

def parseResult (ws : List String) : Option Result :=
  match ws with
  | "ok" :: words => (words.mapM fun w => (parseHex? w).map (BitVec.ofNat 32)).map .ok
  | ["err", e] => some (.err e)
  | _ => none

def showResult : Result → String
  | .ok ws => "ok" ++ String.join (ws.map fun w => " " ++ toHex w.toNat)
  | .err e => "err " ++ e

structure State where
  byName : Std.HashMap String (List Form)

def mkState : State :=
  { byName := AsmjitVerif.Gen.A64DB.allForms.foldl (fun m f => m.insert f.name (f :: (m.getD f.name []))) {} }

def instName (id : Nat) : String :=
  match AsmjitVerif.Gen.A64Tables.instTable[id]? with
  | some r => r.name
  | none => "<none>"

def verdictStr : Verdict → String
  | .full => "good"
  | .partialOk => "good-partial"
  | .bad why => "BAD " ++ why

def step (st : State) (line : String) : State × String :=
  let ws := words line
  match ws with
  | "emit" :: rest =>
    match parseRequest rest with
    | some rq => (st, showResult (AsmjitVerif.A64Asm.emitTop rq))
    | none => (st, "bad-op")
  | "mon" :: rest =>
    -- mon <pos> <inst> <cc> <ops...> => <answer of the implementation>
    let (req, ans) := rest.span (· != "=>")
    match parseRequest req, parseResult (ans.drop 1) with
    | some rq, some res =>
      let name := instName rq.inst
      let pc := baseAddress + BitVec.ofNat 64 rq.pos
      -- the condition code of `b.<cond>` is part of the instruction id: hand it to the spec as a leading cond operand
      let forms := st.byName.getD name [] ++ (match unscaledAlias name with | some a => st.byName.getD a [] | none => [])
      let v := judge forms name rq.ops pc res
      let v := if rq.cc != 0 && name == "b" then
                 (match res with
                  | .ok [w] => if (w.toNat % 16 == condField rq.cc) && (w.toNat >>> 24 == 0x54) then v else .bad "condition-code-not-encoded"
                  | .ok _ => .bad "unexpected-word-count"
                  | .err _ => v)
               else v
      (st, verdictStr v)
    | _, _ => (st, "bad-op")
  | _ => (st, "bad-op")

def main : IO Unit := do
  lineLoop (← IO.getStdin) (← IO.getStdout) mkState step

end Driver.C02
