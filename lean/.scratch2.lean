import AsmjitVerif.Lemmas.C14
namespace AsmjitVerif.Props.C14
open AsmjitVerif.Emitter AsmjitVerif.Gen AsmjitVerif.Offset
#check @report
#check @done
example (s : St) : (report s 3).code = 3 := by simp [report]
example (s : St) : (report s 3).code = 3 := by simp [Emitter.report]
end AsmjitVerif.Props.C14
