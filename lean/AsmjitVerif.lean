import AsmjitVerif.Model.Offset
import AsmjitVerif.Spec.Offset
import AsmjitVerif.Props.C17
