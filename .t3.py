import sys, json, collections, time
sys.path.insert(0,'tools')
import vlib, gen_c12 as g
t=time.time()
ok, out = vlib.lake_build(["vdriver"])
print(ok, out[-1500:] if not ok else "")
db = json.load(open('.build/c12_db.json'))
fe = g.feature_ids(vlib.REPO); fl = g.cpu_flag_bits(vlib.REPO)
qs = g.x86_queries(db)
h = vlib.build_harness("c12")
tout, rc, err = vlib.run_lines([str(h)], ["tables"])
tbl = ["tbl " + l[2:] for l in tout if l.startswith("T ") and l.split()[1] not in ("sizes","reg","end")]
tbl += ["tbl feat %s %d" % kv for kv in fe.items()]
out, rc, err = vlib.run_lines([str(h)], [q["line"] for q in qs])
mlines=[]; idx=[]
for i,(q,a) in enumerate(zip(qs,out)):
    if a=="noinst": continue
    an=g.parse_answer(a)
    w=q["line"].split(); w[2]="#"+an["id"]
    mlines.append(" ".join(w)); idx.append(i)
print("model lines", len(mlines), time.time()-t)
mo, rc2, err2 = vlib.run_model("C12", tbl+mlines)
print(rc2, len(mo), err2[-300:], time.time()-t)
nd=0; cls=collections.Counter()
for k,i in enumerate(idx):
    a=out[i]; a=a[a.index(" rw="):].strip()
    if a!=mo[k]:
        nd+=1
        an=g.parse_answer(out[i])
        cls[(qs[i]["line"].split()[2])]+=1
        if nd<=12: print("DIFF", qs[i]["line"], "\n  impl ", a, "\n  model", mo[k])
print("diffs", nd, cls.most_common(20))
